"""driver for absint-based checks: entry selection, invariant fixpoint passes, obligation reporting"""
import os
import time
from . import absint_interp, absint_inv
from .lir import strip_generics
from .runner import CheckError


def exported_entries(prog, crate, module_pred=None, exclude_names=('new_from_raw',)):
    """bodies of functions reachable from outside the crate (effective visibility), excluding documented-unchecked
    constructors; trait-impl methods of exported types are included through `exported` as rustc computes it"""
    out = []
    for path, meta in sorted(prog.fns.items()):
        if meta['crate'] != crate or not meta.get('exported'):
            continue
        if meta['name'] in exclude_names:
            continue
        b = prog.bodies.get(path)
        if b is None:
            continue
        if module_pred and not module_pred(path, meta):
            continue
        out.append(b)
    return out


_calls_index = {}


def call_site_generic_args(prog):
    """fn path (raw generic path) -> set of generic-arg tuples seen at call sites anywhere in the workspace"""
    key = id(prog)
    if key in _calls_index:
        return _calls_index[key]
    idx = {}
    for b in prog.bodies.values():
        for blk in b.blocks:
            t = blk.term
            if t.k == 'call' and t.func is not None and t.func.const is not None:
                c = t.func.const
                for k in ('fn', 'res'):
                    p = c.get(k)
                    if p and c.get('ga'):
                        idx.setdefault(strip_tf(p), set()).add(tuple(c['ga']))
    _calls_index[key] = idx
    return idx


def strip_tf(p):
    from .lir import strip_turbofish
    return strip_turbofish(p)


def instantiations(prog, body):
    """list of substitutions (generic name -> concrete string) under which a generic entry is analysed:
    const generics take the values used at workspace call sites; type parameters on which the body calls a
    workspace trait take every implementing type. [{}] if the function is not generic or nothing is known."""
    meta = prog.fns.get(body.raw_path)
    if not meta or not meta.get('generics'):
        return [{}]
    names = [g for g in meta['generics'] if not g.startswith("'")]
    if not names:
        return [{}]
    subs = [{}]
    # type parameters with workspace trait calls
    tparams = {}
    for blk in body.blocks:
        t = blk.term
        if t.k == 'call' and t.func is not None and t.func.const is not None:
            c = t.func.const
            if c.get('trait') and c.get('ga') and c['ga'][0] in names and not c.get('res') and \
                    c['trait'].split('::')[0] in ('lorawan', 'lorawan_device', 'lora_phy', 'lora_modulation'):
                tparams.setdefault(c['ga'][0], set()).add(c['trait'])
    for tp, traits in sorted(tparams.items()):
        tys = None
        for tr in traits:
            impls = set(im['self_ty'] for im in prog.impls if im.get('trait') == tr)
            tys = impls if tys is None else (tys & impls)
        if tys:
            subs = [dict(s, **{tp: ty}) for s in subs for ty in sorted(tys)]
    # const generics from call sites
    idx = call_site_generic_args(prog)
    seen = idx.get(body.path, set())
    allg = meta['generics']
    consts = set()
    for ga in seen:
        if len(ga) != len(allg):
            continue
        d = {}
        for n, v in zip(allg, ga):
            if n in names and v.replace('_', '').isdigit():
                d[n] = v
        if d:
            consts.add(tuple(sorted(d.items())))
    if consts:
        subs = [dict(s, **dict(cs)) for s in subs for cs in sorted(consts)]
    return subs


def mentions_unknown_tracked(prog, inv, body):
    for i in range(1, body.argc + 1):
        ty = body.locals[i]
        for head in inv.tracked:
            if head in ty and not inv.known(head):
                return head
    return None


def _analyse_entries(prog, inv, an, entries):
    skipped = {}
    for b in entries:
        h = mentions_unknown_tracked(prog, inv, b)
        if h is not None:
            skipped[b.path] = h
            continue
        is_async = (prog.fns.get(b.raw_path) or {}).get('async')
        trace = os.environ.get('LRS_TRACE_ENTRIES')
        t0 = time.time()
        if trace:
            with open(trace, 'a') as f_:
                f_.write('start %d %s\n' % (os.getpid(), b.path))
        for sub in instantiations(prog, b):
            if is_async:
                fr, out = absint_interp.analyze_async_entry(an, b, subst=sub)
            else:
                fr, out = an.analyze_entry(b, subst=sub)
                inv.check_mut_self_exit(an, b, fr, out)
        if trace:
            with open(trace, 'a') as f_:
                f_.write('done %d %s %.1f\n' % (os.getpid(), b.path, time.time() - t0))
    return skipped


_PAR = {}


def _worker(chunk_idx):
    """analyse one chunk of entries in a forked child; returns only plain data"""
    prog, inv, entries, max_depth, setup, subsume, chunks = _PAR['args']
    an = absint_interp.new_analyzer(prog, max_depth=max_depth)
    absint_inv.install(an, inv)
    if setup:
        setup(an)
    if subsume:
        an.subsume = {b.path for b in entries if mentions_unknown_tracked(prog, inv, b) is None}
    inv.pending = {}
    inv.rel_pending = {}
    skipped = _analyse_entries(prog, inv, an, chunks[chunk_idx])
    obl = [(k, o.ok, o.bad, o.subsumed, o.detail, o.bad_entries) for k, o in an.obl.items()]
    return {'obl': obl, 'pending': inv.pending, 'rel_pending': inv.rel_pending, 'skipped': skipped, 'havoc': an.havoc_log, 'cha': an.cha_log,
            'loops': an.loops, 'loop_iterators': an.loop_iterators, 'fn_contexts': an.fn_contexts, 'lossy': an.lossy_casts}


def _parallel_pass(prog, inv, entries, max_depth, setup, subsume, jobs):
    import multiprocessing as mp
    from .absint import Obligation
    # round-robin chunks (entries are sorted by path: neighbours tend to cost the same)
    n = min(jobs * 3, len(entries))
    chunks = [entries[i::n] for i in range(n)]
    _PAR['args'] = (prog, inv, entries, max_depth, setup, subsume, chunks)
    ctx_ = mp.get_context('fork')
    with ctx_.Pool(min(jobs, n)) as pool:
        results = pool.map(_worker, range(n), chunksize=1)
    _PAR.clear()
    an = absint_interp.new_analyzer(prog, max_depth=max_depth)
    absint_inv.install(an, inv)
    skipped = {}
    for r in results:
        skipped.update(r['skipped'])
        for k, ok, bad, sub, detail, bad_entries in r['obl']:
            o = an.obl.get(k)
            if o is None:
                o = Obligation(*k)
                an.obl[k] = o
            o.ok += ok
            o.bad += bad
            o.subsumed += sub
            if o.detail is None:
                o.detail = detail
            for e, d in bad_entries.items():
                o.bad_entries.setdefault(e, d)
        for k, v in r['havoc'].items():
            an.havoc_log[k] = an.havoc_log.get(k, 0) + v
        an.cha_log.update(r['cha'])
        for k, v in r['loops'].items():
            an.loops.setdefault(k, set()).update(v)
        if isinstance(an.loop_iterators, dict):
            an.loop_iterators.update(r['loop_iterators'])
        else:
            an.loop_iterators |= r['loop_iterators']
        for k, v in r['fn_contexts'].items():
            an.fn_contexts[k] = an.fn_contexts.get(k, 0) + v
        for k, v in r['lossy'].items():
            an.lossy_casts.setdefault(k, []).extend(v)
        # invariant recordings: same folding as Invariants.recorder / record_rel
        for key, ok in r['rel_pending'].items():
            inv.rel_pending[key] = inv.rel_pending.get(key, True) and ok
        for head, rec in r['pending'].items():
            tgt = inv.pending.setdefault(head, {})
            for f, cur in rec.items():
                old = tgt.get(f)
                if old is None:
                    tgt[f] = cur
                else:
                    vs = None if old[2] is None or cur[2] is None or len(old[2] | cur[2]) > 24 else (old[2] | cur[2])
                    tgt[f] = (min(old[0], cur[0]), max(old[1], cur[1]), vs, old[3] + cur[3])
    return an, skipped


def run_passes(prog, entries, crates, max_depth=7, max_passes=6, log=None, setup=None, subsume=False, jobs=0):
    inv = absint_inv.Invariants(prog, crates)
    # only types whose slice field is not `pub` can carry an inferred invariant
    for head in list(inv.tracked):
        adt = prog.adts[head]
        keep = []
        for (vi, fname) in inv.tracked[head]:
            f = [x for x in adt['variants'][vi]['fields'] if x['name'] == fname][0]
            if f['vis'] != 'Public':
                keep.append((vi, fname))
        if keep or inv.int_of.get(head):
            inv.tracked[head] = keep
        else:
            del inv.tracked[head]
    an = None
    skipped = {}
    for p in range(max_passes):
        t0 = time.time()
        if jobs and jobs > 1 and len(entries) > 8:
            an, skipped = _parallel_pass(prog, inv, entries, max_depth, setup, subsume, jobs)
        else:
            an = absint_interp.new_analyzer(prog, max_depth=max_depth)
            absint_inv.install(an, inv)
            if setup:
                setup(an)
            if subsume:
                an.subsume = {b.path for b in entries if mentions_unknown_tracked(prog, inv, b) is None}
            skipped = _analyse_entries(prog, inv, an, entries)
        ch = inv.merge_pass()
        if log:
            log('pass %d: %d entries analysed, %d skipped (type not yet constructed), %d obligations, invariants changed=%s, %.1fs' % (
                p + 1, len(entries) - len(skipped), len(skipped), len(an.obl), ch, time.time() - t0))
        if not ch:
            break
    else:
        raise CheckError('invariant inference did not stabilise in %d passes' % max_passes)
    return an, inv, skipped
