"""flow: CFG rules with resolved events over LIR bodies (DESIGN 3.1).

Provides per-body def/use facts, reference-root resolution (which parameter / field a `&mut` temp
points into), call/await/field-write events, result-test edges (Ok/Err/Some/None/true/false) and the
rule templates DOM, MPT, WHO-WRITES, WHO-CALLS, EFFECT, SAME-VALUE used by the property modules.
"""
from .cfg import CFG
from .lir import strip_turbofish, strip_generics


class Site:
    """a location in a body: block index + statement index (None = terminator)"""
    __slots__ = ('body', 'bb', 'si')

    def __init__(self, body, bb, si=None):
        self.body = body
        self.bb = bb
        self.si = si

    def span(self):
        b = self.body.blocks[self.bb]
        if self.si is None:
            return b.term.sp or self.body.span
        return b.stmts[self.si].sp or self.body.span

    def __repr__(self):
        return '%s@bb%d%s (%s)' % (self.body.path, self.bb, '' if self.si is None else '[%d]' % self.si, self.span())


class Await:
    __slots__ = ('callee', 'callee_res', 'call_bb', 'ready_bb', 'result', 'term', 'yield_bbs', 'poll_bb')

    def __repr__(self):
        return 'await %s @bb%d -> _%s' % (self.callee, self.call_bb, self.result)


class BodyFlow:
    def __init__(self, body):
        self.body = body
        self.cfg = CFG(body)
        self.defs = {}   # local -> [(bb, si|None, kind, obj)]
        self.uses_in_calls = {}
        for b in body.blocks:
            if b.cleanup:
                continue
            for si, s in enumerate(b.stmts):
                if '*' in s.lhs.proj:
                    continue   # a store through a reference does not redefine the reference itself
                self.defs.setdefault(s.lhs.local, []).append((b.idx, si, 'stmt', s))
            t = b.term
            if t.k == 'call':
                self.defs.setdefault(t.dest.local, []).append((b.idx, None, 'call', t))
            elif t.k == 'yield':
                self.defs.setdefault(t.place.local, []).append((b.idx, None, 'yield', t))
        self._awaits = None

    # ------------------------------------------------------------------ defs
    def whole_defs(self, local):
        """definitions assigning the whole local (no projection on lhs)"""
        r = []
        for d in self.defs.get(local, []):
            bb, si, kind, obj = d
            if kind == 'stmt':
                if obj.lhs.is_local():
                    r.append(d)
            elif kind == 'call':
                if obj.dest.is_local():
                    r.append(d)
            else:
                r.append(d)
        return r

    def single_def(self, local):
        d = self.whole_defs(local)
        if len(d) == 1 and len(self.defs.get(local, [])) == 1:
            return d[0]
        return None

    def single_rvalue(self, local):
        d = self.single_def(local)
        if d and d[2] == 'stmt' and d[3].k == 'assign':
            return d[3].rv
        return None

    # ------------------------------------------------------------------ reference roots
    def root_of_place(self, place, depth=0):
        """resolve a place to (root_local, [field names...]) following single-def reference temps and fields of locally built
        closure environments / tuples (`_c = {closure}(a, b); (_c.1)` is b)."""
        r, p = self._root_of_place_raw(place, depth)
        n = 0
        while p and isinstance(p[0], str) and p[0].isdigit() and (r > self.body.argc or r == 0) and n < 8:
            n += 1
            rv = self.single_rvalue(r)
            if rv is None:
                # the future an `.await` polls is `IntoFuture::into_future(f)`: f itself
                d = self.single_def(r)
                if d and d[2] == 'call' and (d[3].callee() or '').endswith('IntoFuture::into_future') and d[3].args and d[3].args[0].place is not None:
                    r2, p2 = self._root_of_place_raw(d[3].args[0].place, depth + 1)
                    r, p = r2, p2 + p
                    continue
                break
            if rv.k != 'agg' or rv.d.get('ak') not in ('closure', 'tuple', 'coroutine') or int(p[0]) >= len(rv.ops) or rv.ops[int(p[0])].place is None:
                break
            r2, p2 = self._root_of_place_raw(rv.ops[int(p[0])].place, depth + 1)
            r, p = r2, p2 + p[1:]
        return r, p

    def _root_of_place_raw(self, place, depth=0):
        path = []
        local = place.local
        for e in place.proj:
            if isinstance(e, dict) and 'f' in e:
                path.append(e['n'] or str(e['f']))
            elif isinstance(e, dict) and ('i' in e or 'ci' in e or 'sub' in e):
                path.append('[]')
            elif isinstance(e, dict) and 'dc' in e:
                path.append('as ' + (e['n'] or str(e['dc'])))
        if depth > 20:
            return local, path
        if local > self.body.argc or local == 0:
            rv = self.single_rvalue(local)
            if rv is not None:
                if rv.k in ('ref', 'rawptr'):
                    r, p = self._root_of_place_raw(rv.place, depth + 1)
                    return r, p + path
                if rv.k == 'use' and rv.ops[0].place is not None:
                    r, p = self._root_of_place_raw(rv.ops[0].place, depth + 1)
                    return r, p + path
                if rv.k == 'cast' and rv.ops[0].place is not None:
                    r, p = self._root_of_place_raw(rv.ops[0].place, depth + 1)
                    return r, p + path
            else:
                d = self.single_def(local)
                if d and d[2] == 'call':
                    t = d[3]
                    c = t.callee() or ''
                    # a call returning a reference (or a Pin of one) is treated as an alias of its first
                    # reference-typed argument (conservative may-alias for "writes through")
                    rty = self.body.locals[local]
                    if rty.startswith('&') or rty.startswith('core::pin::Pin<&') or '&mut ' in rty:
                        for a in t.args:
                            aty = a.ty or ''
                            if a.place is not None and (aty.startswith('&') or aty.startswith('core::pin::Pin<&')):
                                r, p = self._root_of_place_raw(a.place, depth + 1)
                                return r, p + ['()'] + path
        return local, path

    def root_of_operand(self, op):
        if op.place is None:
            return None, []
        return self.root_of_place(op.place)

    # ------------------------------------------------------------------ events
    def calls(self, pred=None):
        """yield (bb, term) for call terminators (non-cleanup, reachable)"""
        for b in self.body.blocks:
            if b.cleanup or b.idx not in self.cfg.reach:
                continue
            if b.term.k == 'call':
                if pred is None or pred(b.term):
                    yield b.idx, b.term

    def calls_to(self, suffix, resolved=True):
        """calls whose callee path (generics stripped) ends with `suffix`"""
        def p(t):
            c = (t.callee_res() if resolved else t.callee()) or ''
            c2 = t.callee() or ''
            return strip_generics(c).endswith(suffix) or strip_generics(c2).endswith(suffix)
        return list(self.calls(p))

    def field_writes(self):
        """direct stores: yield (bb, si, stmt, root_local, path)"""
        for b in self.body.blocks:
            if b.cleanup or b.idx not in self.cfg.reach:
                continue
            for si, s in enumerate(b.stmts):
                if s.lhs.proj:
                    root, path = self.root_of_place(s.lhs)
                    yield b.idx, si, s, root, path

    def mut_ref_args(self, term):
        """for a call: list of (arg index, root_local, path) for arguments that are `&mut` references"""
        r = []
        for i, a in enumerate(term.args):
            ty = a.ty or ''
            if a.place is not None and (ty.startswith('&mut ') or ty.startswith('core::pin::Pin<&mut')):
                root, path = self.root_of_place(a.place)
                r.append((i, root, path))
        return r

    # ------------------------------------------------------------------ awaits
    def awaits(self):
        """recognise `fut.await` expansions: call F -> into_future -> loop { poll -> Ready(v) | Pending -> yield }"""
        if self._awaits is not None:
            return self._awaits
        res = []
        body = self.body
        for bb, t in self.calls():
            c = t.callee() or ''
            if not c.endswith('IntoFuture::into_future'):
                continue
            # source future: the operand's defining call
            src = t.args[0]
            aw = Await()
            aw.callee = None
            aw.callee_res = None
            aw.call_bb = bb
            aw.term = None
            if src.place is not None:
                d = self.single_def(src.place.local)
                if d and d[2] == 'call':
                    aw.callee = d[3].callee()
                    aw.callee_res = d[3].callee_res()
                    aw.call_bb = d[0]
                    aw.term = d[3]
            # follow dest to the pinned future and its poll
            fut_locals = {t.dest.local}
            changed = True
            while changed:
                changed = False
                for b in body.blocks:
                    if b.cleanup:
                        continue
                    for s in b.stmts:
                        if s.k == 'assign' and s.lhs.is_local() and s.rv.k == 'use' and s.rv.ops[0].place is not None \
                                and s.rv.ops[0].place.local in fut_locals and s.lhs.local not in fut_locals:
                            fut_locals.add(s.lhs.local)
                            changed = True
            aw.poll_bb = None
            aw.ready_bb = None
            aw.result = None
            aw.yield_bbs = []
            for pbb, pt in self.calls():
                pc = pt.callee() or ''
                if not pc.endswith('Future::poll'):
                    continue
                r, _ = self.root_of_operand(pt.args[0])
                if r in fut_locals:
                    aw.poll_bb = pbb
                    if 'res' in (pt.func.const or {}):
                        aw.callee_res = aw.callee_res or strip_turbofish(pt.func.const['res'])
                    # ready edge
                    edges = self.variant_edges(pt.dest.local, {'Ready': 0, 'Pending': 1})
                    for (u, v), name in edges.items():
                        if name == 'Ready':
                            aw.ready_bb = v
                    # result local: `_x = move (_43 as Ready).0`
                    if aw.ready_bb is not None:
                        seen = set()
                        stack = [aw.ready_bb]
                        while stack and aw.result is None:
                            x = stack.pop()
                            if x in seen:
                                continue
                            seen.add(x)
                            for s in body.blocks[x].stmts:
                                if s.k == 'assign' and s.rv.k == 'use' and s.rv.ops[0].place is not None:
                                    pl = s.rv.ops[0].place
                                    if pl.local == pt.dest.local and pl.proj:
                                        aw.result = s.lhs.local
                                        break
                            if aw.result is None and body.blocks[x].term.k == 'goto':
                                stack.append(body.blocks[x].term.target)
                    break
            res.append(aw)
        self._awaits = res
        return res

    # ------------------------------------------------------------------ result tests
    def variant_edges(self, local, names):
        """edges of switches on discriminant(local) -> variant name, `names` maps name->discr value.
        Follows whole-value copies/moves of the local."""
        inv = {v: k for k, v in names.items()}
        aliases = self.aliases(local)
        res = {}
        body = self.body
        for b in body.blocks:
            if b.cleanup:
                continue
            t = b.term
            if t.k != 'switch' or t.discr.place is None:
                continue
            dl = t.discr.place
            rv = self.single_rvalue(dl.local) if dl.is_local() else None
            if rv is None or rv.k != 'discr' or rv.place.proj or rv.place.local not in aliases:
                continue
            covered = set()
            for v, tgt in t.targets:
                covered.add(v)
                if v in inv:
                    res[(b.idx, tgt)] = inv[v]
            rest = [v for v in inv if v not in covered]
            if len(rest) == 1:
                res[(b.idx, t.otherwise)] = inv[rest[0]]
        return res

    def aliases(self, local):
        """locals holding the same value through whole copies/moves (forward closure)"""
        al = {local}
        changed = True
        body = self.body
        while changed:
            changed = False
            for b in body.blocks:
                if b.cleanup:
                    continue
                for s in b.stmts:
                    if s.k == 'assign' and s.lhs.is_local() and s.rv.k == 'use':
                        p = s.rv.ops[0].place
                        if p is not None and p.is_local() and p.local in al and s.lhs.local not in al:
                            if len(self.defs.get(s.lhs.local, [])) == 1:
                                al.add(s.lhs.local)
                                changed = True
        return al

    def outcome_edges(self, local):
        """For a Result/Option/bool/ControlFlow valued local: map edge -> 'ok' | 'err'.
        ok = Ok / Some / true / Continue; err = Err / None / false / Break.
        Follows copies, `Try::branch`, `map_err`, `ok()`, and `!`."""
        res = {}
        body = self.body
        work = [(local, False)]
        seen = set()
        while work:
            l, neg = work.pop()
            if (l, neg) in seen:
                continue
            seen.add((l, neg))
            ty = body.locals[l]
            al_ = set(self.aliases(l))
            # shared references to the value (`&x`) are followed for the query methods
            refs_ = set()
            for b in body.blocks:
                if b.cleanup:
                    continue
                for s in b.stmts:
                    if s.k == 'assign' and s.lhs.is_local() and s.rv.k == 'ref' and s.rv.place.is_local() and s.rv.place.local in al_:
                        refs_.add(s.lhs.local)
            for r_ in list(refs_):
                refs_ |= self.aliases(r_)
            for b in body.blocks:
                if b.cleanup:
                    continue
                t = b.term
                if t.k == 'call' and t.args and t.args[0].place is not None and t.args[0].place.is_local() \
                        and t.args[0].place.local in refs_ and t.dest.is_local():
                    c = strip_generics(t.callee() or '')
                    if c.endswith('Result::is_ok') or c.endswith('Option::is_some'):
                        work.append((t.dest.local, neg))
                    elif c.endswith('Result::is_err') or c.endswith('Option::is_none'):
                        work.append((t.dest.local, not neg))
            for a in al_:
                # switches directly on a bool
                for b in body.blocks:
                    if b.cleanup:
                        continue
                    t = b.term
                    if t.k == 'switch' and t.discr.place is not None and t.discr.place.is_local() \
                            and t.discr.place.local == a and body.locals[a] == 'bool':
                        for v, tgt in t.targets:
                            if v == 0:
                                res[(b.idx, tgt)] = 'ok' if neg else 'err'
                        res[(b.idx, t.otherwise)] = 'err' if neg else 'ok'
                    # Not
                    for s in b.stmts:
                        if s.k == 'assign' and s.lhs.is_local() and s.rv.k == 'un' and s.rv.d['op'] == 'Not' \
                                and s.rv.ops[0].place is not None and s.rv.ops[0].place.is_local() \
                                and s.rv.ops[0].place.local == a:
                            work.append((s.lhs.local, not neg))
                    # calls consuming the value
                    if t.k == 'call' and t.args and t.args[0].place is not None and t.args[0].place.is_local() \
                            and t.args[0].place.local == a and t.dest.is_local():
                        c = strip_generics(t.callee() or '')
                        if c.endswith('Try::branch') or c.endswith('Result::map_err') or c.endswith('Result::ok') \
                                or c.endswith('Result::is_ok') or c.endswith('Option::is_some') \
                                or c.endswith('Option::ok_or') or c.endswith('Result::map') or c.endswith('Option::map'):
                            work.append((t.dest.local, neg))
                        elif c.endswith('Result::is_err') or c.endswith('Option::is_none'):
                            work.append((t.dest.local, not neg))
            if ty.startswith('core::result::Result'):
                names = {'Ok': 0, 'Err': 1}
            elif ty.startswith('core::option::Option'):
                names = {'None': 0, 'Some': 1}
            elif ty.startswith('core::ops::control_flow::ControlFlow') or ty.startswith('core::ops::ControlFlow'):
                names = {'Continue': 0, 'Break': 1}
            else:
                names = None
            if names:
                for e, nm in self.variant_edges(l, names).items():
                    good = nm in ('Ok', 'Some', 'Continue')
                    if neg:
                        good = not good
                    res[e] = 'ok' if good else 'err'
        return res

    def ok_edges(self, local):
        return [e for e, k in self.outcome_edges(local).items() if k == 'ok']

    def err_edges(self, local):
        return [e for e, k in self.outcome_edges(local).items() if k == 'err']

    # ------------------------------------------------------------------ rule helpers
    def guarded_by_edges(self, bb, edges):
        """every path entry -> bb takes one of `edges`"""
        edges = set(edges)
        if not edges:
            return False
        seen = {0}
        stack = [0]
        if bb == 0:
            return False
        while stack:
            x = stack.pop()
            for s in self.cfg.succ[x]:
                if (x, s) in edges:
                    continue
                if s == bb:
                    return False
                if s not in seen:
                    seen.add(s)
                    stack.append(s)
        return True

    def reach_avoiding_edges(self, start, edges, avoid_nodes=()):
        edges = set(edges)
        avoid = set(avoid_nodes)
        seen = {start}
        stack = [start]
        while stack:
            x = stack.pop()
            for s in self.cfg.succ[x]:
                if (x, s) in edges or s in avoid:
                    continue
                if s not in seen:
                    seen.add(s)
                    stack.append(s)
        return seen

    def returns_reachable(self, start, avoid_nodes=(), avoid_edges=()):
        r = self.reach_avoiding_edges(start, avoid_edges, avoid_nodes)
        return [e for e in self.cfg.exits if e in r]


class ProgFlow:
    """cache of BodyFlow per body + call graph"""

    def __init__(self, prog):
        self.prog = prog
        self._bf = {}

    def bf(self, body):
        k = body.raw_path
        if k not in self._bf:
            self._bf[k] = BodyFlow(body)
        return self._bf[k]

    def get(self, short):
        return self.bf(self.prog.body(short))

    def callers_of(self, suffix, crates=None):
        """all (BodyFlow, bb, term) calling something whose stripped path ends with suffix"""
        res = []
        for body in self.prog.bodies.values():
            if crates and body.crate not in crates:
                continue
            bf = self.bf(body)
            for bb, t in bf.calls_to(suffix):
                res.append((bf, bb, t))
        return res

    def containers_of(self, adt):
        """full paths of the ADTs matching the suffix `adt`, plus every workspace ADT that holds one of them by value
        (directly, in an Option / array / tuple, transitively): overwriting such an object overwrites the field"""
        import re as _re
        base = set(p for p in self.prog.adts if p == adt or p.endswith('::' + adt) or p.endswith(adt))
        cont = set(base)
        changed = True
        while changed:
            changed = False
            for p, d in self.prog.adts.items():
                if p in cont:
                    continue
                for v in d.get('variants', []):
                    for f in v.get('fields', []):
                        ty = f.get('ty', '')
                        if ty.startswith('&') or ty.startswith('*'):
                            continue
                        names = set(_re.findall(r'[A-Za-z_][A-Za-z0-9_]*(?:::[A-Za-z_][A-Za-z0-9_]*)+', ty))
                        if names & cont:
                            cont.add(p)
                            changed = True
                            break
                    if p in cont:
                        break
        return base, cont

    def writers_of_field(self, adt, field, crates=None):
        """all direct stores to a field named `field` of ADT `adt` (path suffix), aggregate constructions, and
        whole-object overwrites: a store through a projection (or core::mem::replace / take / swap on a `&mut`) whose
        target is the ADT itself or an object holding it by value"""
        res = []
        base, cont = self.containers_of(adt)

        def head(ty):
            ty = strip_generics(ty or '').strip()
            return ty

        for body in self.prog.bodies.values():
            if crates and body.crate not in crates:
                continue
            for b in body.blocks:
                if b.cleanup:
                    continue
                for si, s in enumerate(b.stmts):
                    if s.k != 'assign':
                        continue
                    lf = None
                    # the store must END in this field (no further projection except deref of field? no)
                    if s.lhs.proj:
                        last = s.lhs.proj[-1]
                        if isinstance(last, dict) and 'f' in last and last['n'] == field and strip_generics(last['adt']).endswith(adt):
                            lf = 'store'
                    if lf:
                        res.append((body, b.idx, si, s, 'store'))
                    is_construct = s.rv.k == 'agg' and s.rv.d.get('ak') == 'adt' and strip_generics(s.rv.d['adt']).endswith(adt)
                    if is_construct:
                        if field in s.rv.d.get('fields', []):
                            res.append((body, b.idx, si, s, 'construct'))
                    if s.lhs.proj and not lf and head(s.lhs.ty) in cont and not (is_construct and head(s.lhs.ty) in base):
                        res.append((body, b.idx, si, s, 'overwrite'))
                t = b.term
                if t.k == 'call' and t.func is not None and t.func.const:
                    fn = strip_generics(t.func.const.get('fn', '') or '')
                    if fn in ('core::mem::replace', 'core::mem::take', 'core::mem::swap'):
                        for a in t.args[:2 if fn.endswith('swap') else 1]:
                            ty = (a.place.ty if a.place is not None else '') or ''
                            if ty.startswith('&mut '):
                                ty = ty[5:]
                                if ty.startswith("'"):
                                    ty = ty[ty.index(' ') + 1:] if ' ' in ty else ty
                                if head(ty) in cont:
                                    res.append((body, b.idx, None, t, 'overwrite'))
        return res


# ---------------------------------------------------------------------- symbolic terms (SAME-VALUE)
def _term_place(bf, place, depth, seen):
    body = bf.body
    base = _term_local(bf, place.local, depth, seen)
    for e in place.proj:
        if e == '*':
            if base[0] == 'ref':
                base = base[1]
            else:
                base = ('deref', base)
        elif isinstance(e, str):
            base = (e, base)
        elif 'f' in e:
            nm = e['n'] or str(e['f'])
            # projection of a checked arithmetic result
            if base[0] in ('AddWithOverflow', 'SubWithOverflow', 'MulWithOverflow') and e['f'] == 0:
                base = (base[0][:3], base[1], base[2])
            elif base[0] == 'agg' and isinstance(base[2], tuple) and nm in dict(base[2]):
                base = dict(base[2])[nm]
            elif base[0] == 'tuple' and e['f'] < len(base[1]):
                base = base[1][e['f']]
            elif base[0] == 'closure' and len(base) == 3 and isinstance(base[2], tuple) and e['f'] < len(base[2]):
                base = base[2][e['f']]      # a capture read back from a closure environment built in this body
            elif base[0] == 'call' and isinstance(base[1], str) and base[1].endswith('IntoFuture::into_future') and len(base[2]) == 1 and \
                    isinstance(base[2][0], tuple) and base[2][0][:1] == ('closure',) and e['f'] < len(base[2][0][2]):
                base = base[2][0][2][e['f']]
            else:
                base = ('field', base, nm)
        elif 'i' in e:
            base = ('index', base, _term_local(bf, e['i'], depth + 1, seen))
        elif 'ci' in e:
            base = ('cindex', base, e['ci'], e['fe'])
        elif 'sub' in e:
            base = ('subslice', base, tuple(e['sub']))
        elif 'dc' in e:
            base = ('as', base, e['n'] or str(e['dc']))
    return base


def _term_operand(bf, op, depth, seen):
    if op.place is not None:
        return _term_place(bf, op.place, depth, seen)
    c = op.const
    if 'v' in c:
        return ('const', c['v'])
    if 'fn' in c:
        return ('fn', strip_generics(c['fn']))
    if 'cdef' in c:
        return ('cdef', c['cdef'])
    if 'promoted' in c:
        return ('promoted', c.get('def'), c['promoted'])
    return ('constx', c.get('s'))


def _term_local(bf, local, depth, seen):
    body = bf.body
    if 1 <= local <= body.argc:
        if not bf.whole_defs(local):
            return ('param', local)
    if depth > 40 or local in seen:
        return ('phi', local)
    d = bf.single_def(local)
    if d is None:
        return ('phi', local)
    seen = seen | {local}
    bb, si, kind, obj = d
    if kind == 'stmt':
        if obj.k != 'assign':
            return ('phi', local)
        rv = obj.rv
        k = rv.k
        if k == 'use':
            return _term_operand(bf, rv.ops[0], depth + 1, seen)
        if k == 'ref':
            return ('ref', _term_place(bf, rv.place, depth + 1, seen))
        if k == 'rawptr':
            return ('ref', _term_place(bf, rv.place, depth + 1, seen))
        if k == 'cast':
            inner = _term_operand(bf, rv.ops[0], depth + 1, seen)
            if rv.d['ck'].startswith('Ptr'):
                return inner
            return ('cast', rv.d['ty'], inner, rv.d.get('from'))
        if k == 'bin':
            return (rv.d['op'], _term_operand(bf, rv.ops[0], depth + 1, seen), _term_operand(bf, rv.ops[1], depth + 1, seen))
        if k == 'un':
            return (rv.d['op'], _term_operand(bf, rv.ops[0], depth + 1, seen))
        if k == 'discr':
            return ('discr', _term_place(bf, rv.place, depth + 1, seen))
        if k == 'agg':
            ak = rv.d['ak']
            ops = [_term_operand(bf, o, depth + 1, seen) for o in rv.ops]
            if ak == 'adt':
                nm = strip_generics(rv.d['adt']) + ('::' + rv.d['variant'] if rv.d.get('is_enum') else '')
                fl = rv.d.get('fields', [])
                return ('agg', nm, tuple((fl[i] if i < len(fl) else str(i), o) for i, o in enumerate(ops)))
            if ak == 'tuple':
                return ('tuple', tuple(ops))
            if ak == 'array':
                return ('array', tuple(ops))
            return (ak, rv.d.get('def'), tuple(ops))
        if k == 'rep':
            return ('repeat', _term_operand(bf, rv.ops[0], depth + 1, seen), rv.d['n'])
        return ('other', rv.d.get('s'))
    if kind == 'call':
        t = obj
        c = strip_generics(t.callee_best() or '?')
        cc = t.func.const if t.func is not None else None
        if cc and cc.get('trait') in ('core::convert::From', 'core::convert::Into') and len(t.args) == 1 and len(cc.get('ga') or []) == 2 \
                and all(g in _PRIM_INTS for g in cc['ga']):
            # lossless conversion between primitive integers (`usize::from(x)`, `x.into()`): the same value as the widening `as`
            dst, src = (cc['ga'][0], cc['ga'][1]) if cc['trait'].endswith('From') else (cc['ga'][1], cc['ga'][0])
            return ('cast', dst, _term_operand(bf, t.args[0], depth + 1, seen), src)
        return ('call', c, tuple(_term_operand(bf, a, depth + 1, seen) for a in t.args), bb)
    return ('phi', local)


def term_of_operand(bf, op):
    return _term_operand(bf, op, 0, frozenset())


def term_of_local(bf, local):
    return _term_local(bf, local, 0, frozenset())


def term_of_place(bf, place):
    return _term_place(bf, place, 0, frozenset())


_PRIM_INTS = ('u8', 'u16', 'u32', 'u64', 'u128', 'usize', 'i8', 'i16', 'i32', 'i64', 'i128', 'isize')


def strip_calls_bb(t):
    """drop the block index from call terms (so that two calls with equal arguments compare equal only
    when they are the same call: keep bb) — helper to compare modulo the call site"""
    if isinstance(t, tuple):
        if t and t[0] == 'call':
            return ('call', t[1], tuple(strip_calls_bb(a) for a in t[2]))
        return tuple(strip_calls_bb(x) for x in t)
    return t


def term_str(t, depth=0):
    if not isinstance(t, tuple):
        return str(t)
    if not t:
        return '()'
    if depth > 8:
        return '…'
    h = t[0]
    if h == 'param':
        return 'arg%d' % t[1]
    if h == 'const':
        return str(t[1])
    if h == 'call':
        return '%s(%s)' % (t[1].split('::')[-1] if '::' in t[1] else t[1], ', '.join(term_str(a, depth + 1) for a in t[2]))
    if h == 'field':
        return '%s.%s' % (term_str(t[1], depth + 1), t[2])
    if h == 'ref':
        return '&' + term_str(t[1], depth + 1)
    if h == 'deref':
        return '*' + term_str(t[1], depth + 1)
    if h == 'phi':
        return 'φ_%d' % t[1]
    if h == 'cast':
        return '(%s as %s)' % (term_str(t[2], depth + 1), t[1])
    if h == 'as':
        return '(%s as %s)' % (term_str(t[1], depth + 1), t[2])
    if h == 'agg':
        return '%s{%s}' % (t[1].split('::')[-1], ', '.join('%s: %s' % (n, term_str(v, depth + 1)) for n, v in t[2]))
    return '%s(%s)' % (h, ', '.join(term_str(x, depth + 1) for x in t[1:]))


def term_contains(t, pred):
    if pred(t):
        return True
    if isinstance(t, tuple):
        return any(term_contains(x, pred) for x in t)
    return False


# ---------------------------------------------------------------------- may-write summaries (EFFECT)
PURE_EXTERNAL_MUT = (
    # external functions that take `&mut` but write only to the referenced iterator/formatter object,
    # which in every use in this workspace is a local temporary
    'Iterator::next', 'Iterator::filter_map', 'Iterator::peekable', 'Peekable::peek', 'Formatter',
    # reference adapters: return a (sub-)reference derived from the argument without storing anything
    'IndexMut::index_mut', '::deref_mut', '::as_mut', '::as_mut_slice', '::get_mut', '::iter_mut', '::split_at_mut',
    'Pin::new_unchecked', 'Pin::new', 'Pin::get_unchecked_mut', '::borrow_mut', '::as_deref_mut', 'Option::as_mut',
    'core::future::get_context',
)


class Effects:
    """per function: set of parameter indices (1-based) through which the function may write memory
    reachable from that parameter. For coroutine bodies the 'parameters' are the upvar indices+1."""

    def __init__(self, pf):
        self.pf = pf
        self.prog = pf.prog
        self.summ = {}
        self._compute()

    def _is_mut_ty(self, ty):
        return ty.startswith('&mut ') or ty.startswith('core::pin::Pin<&mut')

    def closure_args(self, bf, term):
        """closures passed to a call: list of (closure body, [(upvar index, root, path) for captured references])"""
        res = []
        for a in term.args:
            if a.place is None:
                continue
            loc = a.place.local
            # follow copies back to the closure aggregate
            seen = set()
            while loc not in seen:
                seen.add(loc)
                rv = bf.single_rvalue(loc)
                if rv is None:
                    break
                if rv.k == 'agg' and rv.d.get('ak') in ('closure', 'coroutine'):
                    cb = self.prog.by_short.get(strip_turbofish(rv.d['def']))
                    if cb and len(cb) == 1:
                        caps = []
                        for i, o in enumerate(rv.ops):
                            if o.place is not None:
                                r, pth = bf.root_of_place(o.place)
                                caps.append((i, r, pth, o.ty or ''))
                        res.append((cb[0], caps))
                    break
                if rv.k == 'use' and rv.ops[0].place is not None and rv.ops[0].place.is_local():
                    loc = rv.ops[0].place.local
                else:
                    break
        return res

    def _param_of_root(self, bf, root, path):
        """map a root to the summary's parameter index or None"""
        body = bf.body
        if body.coroutine or '{closure#' in body.path.split('::')[-1]:
            if root == 1 and path:
                try:
                    return int(path[0]) + 1
                except ValueError:
                    return None
            return None
        if 1 <= root <= body.argc:
            return root
        return None

    def callee_body(self, term):
        c = term.callee_res() or term.callee()
        if not c:
            return None
        l = self.prog.by_short.get(c)
        if l and len(l) == 1:
            return l[0]
        c2 = term.callee()
        l = self.prog.by_short.get(c2)
        if l and len(l) == 1:
            return l[0]
        return None

    def coroutine_of(self, body):
        """if body is an `async fn` shell (constructs a coroutine and returns it), return
        (coroutine body, [operand param index per upvar])"""
        for b in body.blocks:
            if b.cleanup:
                continue
            for s in b.stmts:
                if s.k == 'assign' and s.rv.k == 'agg' and s.rv.d.get('ak') == 'coroutine' and s.lhs.is_local() and s.lhs.local == 0:
                    cb = self.prog.by_short.get(strip_turbofish(s.rv.d['def']))
                    if cb and len(cb) == 1:
                        bf = self.pf.bf(body)
                        m = []
                        for o in s.rv.ops:
                            r, _ = bf.root_of_operand(o)
                            m.append(r if r is not None and 1 <= r <= body.argc else None)
                        return cb[0], m
        return None

    def _direct(self, body):
        bf = self.pf.bf(body)
        w = set()
        deps = []   # (param, callee_body, callee_param) or (param, None, None)=unknown writes
        for bb, si, s, root, path in bf.field_writes():
            p = self._param_of_root(bf, root, path)
            if p is None:
                continue
            # a store through a by-value (non-reference) parameter is local
            clos = '{closure#' in body.path.split('::')[-1]
            if not body.coroutine and not clos and not self._is_mut_ty(body.locals[root]):
                continue
            w.add(p)
        co = self.coroutine_of(body)
        if co:
            cb, m = co
            for i, pidx in enumerate(m):
                if pidx is not None:
                    deps.append((pidx, cb, i + 1))
        for bb, t in bf.calls():
            for (cbody, caps) in self.closure_args(bf, t):
                for (ui, root, path, cty) in caps:
                    p = self._param_of_root(bf, root, path)
                    if p is not None and ('&mut' in cty or self._is_mut_ty(body.locals[root] if root < len(body.locals) else '')):
                        deps.append((p, cbody, ui + 1))
            for (ai, root, path) in bf.mut_ref_args(t):
                p = self._param_of_root(bf, root, path)
                if p is None:
                    continue
                cb = self.callee_body(t)
                if cb is None:
                    c = strip_generics(t.callee() or '')
                    if any(x in c for x in PURE_EXTERNAL_MUT):
                        continue
                    w.add(p)
                else:
                    deps.append((p, cb, ai + 1))
        return w, deps

    def _compute(self):
        direct = {}
        for body in self.prog.bodies.values():
            if body.stage == 'promoted':
                continue
            direct[body.raw_path] = self._direct(body)
        summ = {k: set(v[0]) for k, v in direct.items()}
        changed = True
        while changed:
            changed = False
            for k, (w, deps) in direct.items():
                for (p, cb, cp) in deps:
                    if p in summ[k]:
                        continue
                    if cp in summ.get(cb.raw_path, set()):
                        summ[k].add(p)
                        changed = True
        self.summ = summ

    def may_write(self, body, param):
        return param in self.summ.get(body.raw_path, set())

    def call_effects(self, bf, term):
        """for a call site: list of (root, path) of caller roots that may be written by this call"""
        res = []
        for (cbody, caps) in self.closure_args(bf, term):
            for (ui, root, path, cty) in caps:
                if self.may_write(cbody, ui + 1):
                    res.append((root, path, 'closure'))
        cb = self.callee_body(term)
        for (ai, root, path) in bf.mut_ref_args(term):
            if cb is None:
                c = strip_generics(term.callee() or '')
                if any(x in c for x in PURE_EXTERNAL_MUT):
                    continue
                res.append((root, path, 'external'))
            elif self.may_write(cb, ai + 1):
                res.append((root, path, 'summary'))
        return res
