"""rule templates shared by property modules (DESIGN 3.1): effect enumeration, guards, helpers"""
import re
from . import flow
from .flow import term_of_operand, term_of_local, term_of_place, term_str, strip_calls_bb
from .lir import strip_generics, strip_turbofish
from .runner import CheckError


def param_by_name(body, name):
    for n, p in body.dbg:
        if n == name and p.is_local() and 1 <= p.local <= body.argc:
            return p.local
    raise CheckError('missing anchor: parameter `%s` of %s' % (name, body.path))


def local_by_name(body, name):
    r = [p.local for n, p in body.dbg if n == name and p.is_local()]
    if not r:
        raise CheckError('missing anchor: local `%s` of %s' % (name, body.path))
    return r


def variant_discr(prog, adt_suffix, name):
    for p, a in prog.adts.items():
        if strip_generics(p).endswith(adt_suffix):
            for v in a['variants']:
                if v['name'] == name:
                    return v['discr']
    raise CheckError('missing anchor: variant %s::%s' % (adt_suffix, name))


def variants_of(prog, adt_suffix):
    for p, a in prog.adts.items():
        if strip_generics(p).endswith(adt_suffix):
            return {v['name']: v['discr'] for v in a['variants']}
    raise CheckError('missing anchor: enum %s' % adt_suffix)


def callee_name(t):
    return strip_generics(t.callee_best() or '?')


def is_poll_term(t):
    """is the term the poll of an awaited future: `Future::poll(..)`, or - when the future's type is a known async fn - the resolved
    coroutine body `f::{closure#0}(Pin::new_unchecked(..), cx)`"""
    if not (isinstance(t, tuple) and len(t) >= 3 and t[0] == 'call' and isinstance(t[1], str)):
        return False
    if t[1].endswith('Future::poll'):
        return True
    if t[1].endswith('::{closure#0}') and len(t[2]) == 2:
        a = t[2][0]
        while isinstance(a, tuple) and a and a[0] in ('ref', 'deref') and len(a) == 2:
            a = a[1]
        return isinstance(a, tuple) and a[:1] == ('call',) and isinstance(a[1], str) and a[1].endswith('::new_unchecked')
    return False


def effects(ctx, bf, roots):
    """all persistent-effect events in a body: direct stores and may-writing calls whose written root is
    one of `roots` (set of locals; for coroutine bodies: set of (1, upvar-index-string) handled by caller).
    returns list of dicts {bb, si, kind, what, root, path}"""
    ev = []
    for bb, si, s, root, path in bf.field_writes():
        if root in roots:
            ev.append({'bb': bb, 'si': si, 'kind': 'store', 'what': 'store %s' % '.'.join(path), 'root': root, 'path': path})
    for bb, t in bf.calls():
        for (root, path, how) in ctx.ef.call_effects(bf, t):
            if root in roots:
                ev.append({'bb': bb, 'si': None, 'kind': 'call', 'what': 'call %s (&mut %s)' % (callee_name(t), '.'.join(path) or 'param'),
                           'root': root, 'path': path, 'callee': callee_name(t), 'term': t})
    return ev


def one_call(bf, suffix):
    c = bf.calls_to(suffix)
    if len(c) != 1:
        raise CheckError('missing anchor: expected exactly one call to %s in %s, found %d' % (suffix, bf.body.path, len(c)))
    return c[0]


def edge_target_blocks(edges):
    return [v for (u, v) in edges]


def is_const_bool_arg(t, idx, val):
    a = t.args[idx]
    return a.const is not None and a.const.get('v') == (1 if val else 0)


def linear(t):
    """normalise an integer term to (coefficients {atom: k}, constant); casts that widen are transparent"""
    if not isinstance(t, tuple):
        return {t: 1}, 0
    h = t[0]
    if h == 'const':
        return {}, t[1]
    if h in ('Add', 'Sub', 'AddWithOverflow', 'SubWithOverflow', 'AddUnchecked', 'SubUnchecked'):
        a, ca = linear(t[1])
        b, cb = linear(t[2])
        sign = 1 if h.startswith('Add') else -1
        r = dict(a)
        for k, v in b.items():
            r[k] = r.get(k, 0) + sign * v
            if r[k] == 0:
                del r[k]
        return r, ca + sign * cb
    if h in ('Mul', 'MulWithOverflow') and (t[1][0] == 'const' or t[2][0] == 'const'):
        k = t[1][1] if t[1][0] == 'const' else t[2][1]
        a, ca = linear(t[2] if t[1][0] == 'const' else t[1])
        return {x: v * k for x, v in a.items()}, ca * k
    if h == 'cast':
        return linear(t[2])
    w = int_from_arg(t)
    if w is not None:
        return linear(w)
    if h == 'call' and isinstance(t[1], str) and t[1].endswith('::len') and len(t[2]) == 1:
        # length of a sub-slice taken with an explicit range: buf[a..b].len() = b - a (through `?` / unwrap / Some-payload wrappers)
        r = _subslice_range(t[2][0])
        if r is not None:
            a, b = r
            la, ca = linear(a)
            lb, cb = linear(b)
            d = dict(lb)
            for k, v in la.items():
                d[k] = d.get(k, 0) - v
                if d[k] == 0:
                    del d[k]
            return d, cb - ca
    return {t: 1}, 0


_INT_FROM = re.compile(r'^<[ui](8|16|32|64|128|size) as core::convert::(From|Into)<[ui](8|16|32|64|128|size)>>::(from|into)$')


def int_from_arg(t):
    """x if t is `T::from(x)` / `x.into()` between primitive integer types (lossless by construction: the same value as a widening `as`)"""
    if isinstance(t, tuple) and len(t) >= 3 and t[0] == 'call' and isinstance(t[1], str) and len(t[2]) == 1 and _INT_FROM.match(t[1]):
        return t[2][0]
    return None


def strip_widening(t):
    """the value under `as` casts and lossless integer From/Into conversions"""
    while isinstance(t, tuple) and t:
        if t[0] == 'cast':
            t = t[2]
            continue
        w = int_from_arg(t)
        if w is None:
            break
        t = w
    return t


def _strip_wrappers(t):
    """the value inside reference / `?` / unwrap / ok_or / Some-payload wrappers"""
    while isinstance(t, tuple) and t:
        if t[0] in ('ref', 'deref') and len(t) == 2:
            t = t[1]
        elif t[0] == 'field' and len(t) == 3 and t[2] == '0' and isinstance(t[1], tuple) and t[1][:1] == ('as',) and t[1][2] in ('Continue', 'Some', 'Ok'):
            t = t[1][1]
        elif t[0] == 'call' and isinstance(t[1], str) and t[1].endswith(('Try::branch', 'Option::ok_or', 'Option::unwrap', 'Result::unwrap', 'Option::expect', 'Result::expect', 'Option::ok_or_else')) and t[2]:
            t = t[2][0]
        else:
            break
    return t


def _subslice_range(t):
    t = _strip_wrappers(t)
    if isinstance(t, tuple) and len(t) >= 3 and t[0] == 'call' and isinstance(t[1], str) and t[1].endswith(('Index::index', 'IndexMut::index_mut', '::get', '::get_mut')) and len(t[2]) == 2:
        r = _strip_wrappers(t[2][1])
        if isinstance(r, tuple) and r[:1] == ('agg',):
            f = dict(r[2])
            if r[1].endswith('ops::range::Range'):
                return f.get('start'), f.get('end')
            if r[1].endswith('ops::range::RangeTo'):
                return ('const', 0), f.get('end')
    return None


def find_in_term(t, pred):
    """first subterm satisfying pred (pre-order)"""
    if pred(t):
        return t
    if isinstance(t, tuple):
        for x in t:
            r = find_in_term(x, pred)
            if r is not None:
                return r
    return None


def await_by_poll(bf):
    return {a.poll_bb: a for a in bf.awaits() if a.poll_bb is not None}


def short_fn(path):
    if not path:
        return '?'
    p = strip_generics(path)
    parts = [x for x in p.split('::') if not x.startswith('{')]
    return '::'.join(parts[-2:])


def source_of(bf, op):
    """describe where an error value comes from: the awaited or called function whose result it is"""
    return source_of_term(bf, term_of_operand(bf, op))


def source_of_term(bf, t):
    polls = await_by_poll(bf)
    c = find_in_term(t, lambda x: isinstance(x, tuple) and len(x) == 4 and x[0] == 'call' and not any(
        x[1].endswith(s) for s in ('Try::branch', 'Result::map_err', 'FromResidual::from_residual', 'Into::into', 'From::from')))
    if c is None:
        return 'unknown'
    if c[1].endswith('Future::poll'):
        a = polls.get(c[3])
        if a is not None and a.callee:
            return short_fn(a.callee)
        return 'await'
    return short_fn(c[1])


def err_exits(bf, trace_explicit=False):
    """`?` exits and explicit `Err(..)` returns of a body: list of dict(bb, source, kind); with trace_explicit an `Err(e)` whose e is
    the Err payload of a call / await result is attributed to that call like the `?` it spells out"""
    res = []
    body = bf.body
    for bb, t in bf.calls():
        c = strip_generics(t.callee() or '')
        if c.endswith('FromResidual::from_residual') and t.dest.is_local() and t.dest.local == 0:
            res.append({'bb': bb, 'source': source_of(bf, t.args[0]), 'kind': '?'})
    for b in body.blocks:
        if b.cleanup or b.idx not in bf.cfg.reach:
            continue
        for si, s in enumerate(b.stmts):
            if s.k == 'assign' and s.lhs.is_local() and s.lhs.local == 0 and s.rv.k == 'agg' and s.rv.d.get('variant') == 'Err' \
                    and s.rv.d.get('adt', '').endswith('Result'):
                # `Err(e)` / `Err(wrap(e))` with e the Err payload of a call or await result is the hand-written form of `?`
                src = 'explicit'
                if s.rv.ops and trace_explicit:
                    pt = term_of_operand(bf, s.rv.ops[0])
                    inner = find_in_term(pt, lambda x: isinstance(x, tuple) and len(x) == 3 and x[0] == 'as' and x[2] == 'Err')
                    if inner is not None:
                        so = source_of_term(bf, inner[1])
                        if so not in ('unknown', 'await'):
                            src = so
                res.append({'bb': b.idx, 'source': src, 'kind': 'Err'})
    # ordinals per source in block order
    cnt = {}
    for r in sorted(res, key=lambda r: r['bb']):
        cnt[r['source']] = cnt.get(r['source'], 0) + 1
        r['ord'] = cnt[r['source']]
    return sorted(res, key=lambda r: r['bb'])


def forward_may(bf, starts, init, node_fn=None, edge_fn=None):
    """forward may-dataflow over sets of abstract values. starts: iterable of blocks.
    node_fn(bb, value) -> value after the block; edge_fn(u, v, value) -> value along the edge (or None to drop)."""
    state = {}
    work = []
    for s in starts:
        state[s] = set(init)
        work.append(s)
    while work:
        b = work.pop()
        outs = set()
        for v in state[b]:
            r = node_fn(b, v) if node_fn else v
            if isinstance(r, (set, frozenset)):
                outs |= r       # a node may split a value into several (callee summaries)
            else:
                outs.add(r)
        for s in bf.cfg.succ[b]:
            vals = set()
            for v in outs:
                nv = edge_fn(b, s, v) if edge_fn else v
                if nv is not None:
                    vals.add(nv)
            if not vals:
                continue
            old = state.get(s, set())
            if not vals <= old:
                state[s] = old | vals
                work.append(s)
    return state


def path_conditions(bf, bb):
    """necessary branch conditions for reaching block bb: list of (term of the switch discriminant, value)
    where value is an int (switch value) or ('not', [values]) for the otherwise edge. Only switches with an
    out-edge that every path to bb must take are listed."""
    conds = []
    body = bf.body
    for b in body.blocks:
        t = b.term
        if b.cleanup or t.k != 'switch' or b.idx not in bf.cfg.reach:
            continue
        if not bf.cfg.dominates(b.idx, bb) or b.idx == bb:
            continue
        outs = {}
        for v, tgt in t.targets:
            outs.setdefault(tgt, []).append(v)
        cands = []
        for tgt, vals in outs.items():
            if tgt != t.otherwise and bf.guarded_by_edges(bb, [(b.idx, tgt)]):
                cands.append((vals, True))
        if t.otherwise not in [tg for _, tg in t.targets] and bf.guarded_by_edges(bb, [(b.idx, t.otherwise)]):
            cands.append(([v for v, _ in t.targets], False))
        if len(cands) == 1:
            vals, pos = cands[0]
            d = t.discr
            term = term_of_operand(bf, d)
            conds.append((term, tuple(vals) if pos else ('not', tuple(vals)), b.idx))
    return conds


def cond_true(c):
    """(term, val) means the boolean `term` is true"""
    term, val = c[0], c[1]
    return val == ('not', (0,)) or val == (1,)


def cond_false(c):
    return c[1] == (0,)


def option_known(c):
    """(option term, True for Some / False for None) if the path condition c settles an Option: `o.is_some()` / `o.is_none()` taken
    either way, or the discriminant test of a `match o` / `if let Some(..) = o` (1 = Some, 0 = None); else None"""
    term, val = c[0], c[1]
    t = term
    while isinstance(t, tuple) and t and t[0] in ('ref', 'deref') and len(t) == 2:
        t = t[1]
    if not isinstance(t, tuple) or not t:
        return None
    if t[0] == 'call' and isinstance(t[1], str) and t[1].endswith(('Option::is_some', 'Option::is_none')) and len(t[2]) == 1:
        truth = True if cond_true(c) else False if cond_false(c) else None
        if truth is None:
            return None
        o = t[2][0]
        while isinstance(o, tuple) and o and o[0] in ('ref', 'deref') and len(o) == 2:
            o = o[1]
        return o, (truth if t[1].endswith('is_some') else not truth)
    if t[0] == 'discr' and val in ((1,), (0,), ('not', (0,)), ('not', (1,))):
        o = t[1]
        while isinstance(o, tuple) and o and o[0] in ('ref', 'deref') and len(o) == 2:
            o = o[1]
        return o, val in ((1,), ('not', (0,)))
    return None


def defs_with_conditions(bf, local):
    """for a multiply-defined local: list of (value term, conditions, bb)"""
    res = []
    for (bb, si, kind, obj) in bf.whole_defs(local):
        if kind == 'stmt' and obj.k == 'assign':
            rv = obj.rv
            if rv.k == 'use':
                v = term_of_operand(bf, rv.ops[0])
            elif rv.k == 'agg' and rv.d.get('ak') == 'adt':
                nm = strip_generics(rv.d['adt']) + ('::' + rv.d['variant'] if rv.d.get('is_enum') else '')
                fl = rv.d.get('fields', [])
                v = ('agg', nm, tuple((fl[i] if i < len(fl) else str(i), term_of_operand(bf, o)) for i, o in enumerate(rv.ops)))
            elif rv.k == 'agg' and rv.d.get('ak') == 'tuple':
                v = ('tuple', tuple(term_of_operand(bf, o) for o in rv.ops))
            elif rv.k == 'bin':
                v = (rv.d['op'], term_of_operand(bf, rv.ops[0]), term_of_operand(bf, rv.ops[1]))
            elif rv.k == 'cast':
                v = ('cast', rv.d['ty'], term_of_operand(bf, rv.ops[0]), rv.d.get('from'))
            elif rv.k == 'ref' and rv.place is not None:
                from .flow import term_of_place
                v = ('ref', term_of_place(bf, rv.place))
            else:
                v = ('other', rv.k)
        elif kind == 'call':
            t = obj
            v = ('call', callee_name(t), tuple(term_of_operand(bf, a) for a in t.args), bb)
        else:
            v = ('other', kind)
        res.append((v, path_conditions(bf, bb), bb))
    return res


def resolve_captures(pf, bf, term):
    """rewrite a term of a closure body so that captured variables (fields of the closure environment, parameter 1)
    become the terms captured at the closure's construction site in the enclosing function (whose parameters then
    appear as ('outer', n) to keep them apart from the closure's own parameters)"""
    path = bf.body.path
    if '::{closure#' not in path:
        return term
    parent = path[:path.rindex('::{closure#')]
    bl = pf.prog.by_short.get(parent) or []
    if len(bl) != 1:
        return term
    pbf = pf.bf(bl[0])
    caps = None
    for b in pbf.body.blocks:
        for st in b.stmts:
            if st.k == 'assign' and st.rv.k == 'agg' and st.rv.d.get('ak') == 'closure' and st.rv.d.get('def') == path:
                caps = [term_of_operand(pbf, o) for o in st.rv.ops]
    if caps is None:
        return term

    def outer(t):
        if isinstance(t, tuple):
            if t[:1] == ('param',):
                return ('outer', t[1])
            return tuple(outer(x) for x in t)
        return t
    caps = [outer(x) for x in caps]

    def rw(t):
        if isinstance(t, tuple):
            if len(t) == 3 and t[0] == 'field' and t[2].isdigit() and t[1] in (('param', 1), ('deref', ('param', 1))) and int(t[2]) < len(caps):
                return caps[int(t[2])]
            return tuple(rw(x) for x in t)
        return t
    return rw(term)


def is_call_suffix(t, suffix):
    while isinstance(t, tuple) and t and t[0] in ('ref', 'deref') and len(t) == 2:
        t = t[1]
    return isinstance(t, tuple) and len(t) >= 3 and t[0] == 'call' and isinstance(t[1], str) and t[1].endswith(suffix)


# ---------------------------------------------------------------------- order facts from path conditions
def _lin_key(l):
    return (tuple(sorted(((repr(k), v) for k, v in l[0].items()))), l[1])


def _lin_diff(a, b):
    la, ca = linear(a)
    lb, cb = linear(b)
    d = dict(la)
    for k, v in lb.items():
        d[k] = d.get(k, 0) - v
        if d[k] == 0:
            del d[k]
    return d, ca - cb


def order_facts(conds):
    """normalised facts about integer terms from branch conditions: list of (rel, d) with d = linear(x - y) and
    rel in {'<0', '<=0', '==0', '!=0'}; every comparison operator and both polarities are covered"""
    out = []
    for cnd in conds:
        t = cnd[0]
        if not (isinstance(t, tuple) and len(t) == 3 and t[0] in ('Lt', 'Le', 'Gt', 'Ge', 'Eq', 'Ne')):
            continue
        tr = cond_true(cnd)
        fa = cond_false(cnd)
        if not (tr or fa):
            continue
        op = t[0]
        if fa:
            op = {'Lt': 'Ge', 'Le': 'Gt', 'Gt': 'Le', 'Ge': 'Lt', 'Eq': 'Ne', 'Ne': 'Eq'}[op]
        x, y = t[1], t[2]
        if op in ('Gt', 'Ge'):
            x, y = y, x
            op = {'Gt': 'Lt', 'Ge': 'Le'}[op]
        d = _lin_diff(x, y)
        r_ = {'Lt': '<0', 'Le': '<=0', 'Eq': '==0', 'Ne': '!=0'}[op]
        out.append((r_, d))
        if r_ in ('==0', '!=0'):
            out.append((r_, ({k: -v for k, v in d[0].items()}, -d[1])))
    return out


def implies_order(conds, rel, a, b):
    """do the branch conditions imply  a rel b  (rel in '<', '<=', '==', '!=')? integer reasoning on identical linear forms"""
    facts = order_facts(conds)
    d = _lin_diff(a, b)
    nd = ({k: -v for k, v in d[0].items()}, -d[1])

    def has(r, dd):
        # a fact on the same linear part whose constant makes it at least as strong
        for (fr, fd) in facts:
            if fd[0] != dd[0]:
                continue
            k = dd[1] - fd[1]           # dd = fd + k
            if r == '<=0' and ((fr == '<=0' and k <= 0) or (fr == '<0' and k <= 1) or (fr == '==0' and k <= 0)):
                return True
            if r == '<0' and ((fr == '<0' and k <= 0) or (fr == '<=0' and k <= -1) or (fr == '==0' and k <= -1)):
                return True
            if r == '==0' and fr == '==0' and k == 0:
                return True
            if r == '!=0' and ((fr == '!=0' and k == 0) or (fr == '<0' and k <= 0) or (fr == '==0' and k != 0)):
                return True
        return False
    if rel == '<=':
        return has('<=0', d)
    if rel == '<':
        return has('<0', d) or (has('<=0', d) and (has('!=0', d) or has('!=0', nd)))
    if rel == '==':
        return has('==0', d) or has('==0', nd) or (has('<=0', d) and has('<=0', nd))
    if rel == '!=':
        return has('!=0', d) or has('!=0', nd) or has('<0', d) or has('<0', nd)
    return False


# ---------------------------------------------------------------------- conditional values
def value_cases(bf, t, conds=(), depth=0):
    """the alternatives a value term stands for, each with the conditions under which it is taken:
    a phi (one case per definition), `c.then_some(v)` / `if c { Some(v) } else { None }`, `opt.map(|_| v)`,
    `opt.is_some()`-style selections. Returns [(value term, [conditions])]; conditions have the shape of
    path_conditions entries (term, (1,) | (0,), None)."""
    conds = list(conds)
    t0 = t
    while isinstance(t, tuple) and t and t[0] in ('ref', 'deref') and len(t) == 2:
        t = t[1]
    if depth > 3 or not isinstance(t, tuple) or not t:
        return [(t0, conds)]
    if t[0] == 'phi':
        out = []
        for v, cs, bb in defs_with_conditions(bf, t[1]):
            out += value_cases(bf, v, conds + list(cs), depth + 1)
        return out or [(t0, conds)]
    if t[0] == 'call' and isinstance(t[1], str) and t[1].endswith('bool>::then_some') and len(t[2]) == 2:
        c_, v_ = t[2]
        return value_cases(bf, ('agg', 'core::option::Option::Some', (('0', v_),)), conds + [(c_, (1,), None)], depth + 1) + \
            [(('agg', 'core::option::Option::None', ()), conds + [(c_, (0,), None)])]
    if t[0] == 'call' and isinstance(t[1], str) and t[1].endswith('Option::ok_or') and len(t[2]) == 2:
        # opt.ok_or(e): Ok(payload) when opt is Some, Err(e) otherwise - when the option's own alternatives are known
        opt, err = t[2]
        sub = value_cases(bf, opt, conds, depth + 1)
        if sub and all(isinstance(v_, tuple) and v_[:1] == ('agg',) and str(v_[1]).endswith(('Option::Some', 'Option::None')) for v_, _ in sub):
            out = []
            for v_, cs_ in sub:
                if str(v_[1]).endswith('Option::Some'):
                    out.append((('agg', 'core::result::Result::Ok', v_[2]), cs_))
                else:
                    out.append((('agg', 'core::result::Result::Err', (('0', err),)), cs_))
            return out
    if t[0] == 'call' and isinstance(t[1], str) and t[1].endswith('Option::unwrap_or') and len(t[2]) == 2:
        # opt.unwrap_or(d): the Some payload when opt is Some, d otherwise (d is evaluated either way - the value is the same)
        opt, dflt = t[2]
        is_some = ('call', 'core::option::Option::is_some', (('ref', opt),), None)
        return value_cases(bf, ('field', ('as', opt, 'Some'), '0'), conds + [(is_some, (1,), None)], depth + 1) + \
            value_cases(bf, dflt, conds + [(is_some, (0,), None)], depth + 1)
    if t[0] == 'call' and isinstance(t[1], str) and t[1].endswith('Option::map') and len(t[2]) == 2 and isinstance(t[2][1], tuple) and t[2][1][:1] == ('closure',) and _PF is not None:
        # opt.map(|_| expr): Some(expr) exactly when opt is Some (expr may only use captured values)
        opt, clo = t[2]
        ret = _closure_return(clo)
        if ret is None:
            # the closure uses its argument: the Some payload of the mapped option
            ret = closure_result(clo, [('field', ('as', opt, 'Some'), '0')])
        if ret is not None:
            is_some = ('call', 'core::option::Option::is_some', (('ref', opt),), None)
            return value_cases(bf, ('agg', 'core::option::Option::Some', (('0', ret),)), conds + [(is_some, (1,), None)], depth + 1) + \
                [(('agg', 'core::option::Option::None', ()), conds + [(is_some, (0,), None)])]
    return [(t0, conds)]


_PF = None


def set_progflow(pf):
    global _PF
    _PF = pf


def _closure_return(clo):
    """return term of a closure whose body is a single expression over its captures (parameter 2.. unused), captures substituted"""
    path, caps = clo[1], clo[2]
    bl = _PF.prog.by_short.get(strip_generics(path)) or _PF.prog.by_short.get(path) or []
    if len(bl) != 1:
        return None
    cbf = _PF.bf(bl[0])
    rets = [st for b in cbf.body.blocks if not b.cleanup and b.idx in cbf.cfg.reach for st in b.stmts if st.k == 'assign' and st.lhs.is_local() and st.lhs.local == 0]
    if len(rets) != 1 or any(b.term.k == 'call' for b in cbf.body.blocks if not b.cleanup and b.idx in cbf.cfg.reach):
        return None
    st = rets[0]
    if st.rv.k == 'use':
        rt = term_of_operand(cbf, st.rv.ops[0])
    elif st.rv.k == 'agg' and st.rv.d.get('ak') == 'adt':
        nm = strip_generics(st.rv.d['adt']) + ('::' + st.rv.d['variant'] if st.rv.d.get('is_enum') else '')
        fl = st.rv.d.get('fields', [])
        rt = ('agg', nm, tuple((fl[i] if i < len(fl) else str(i), term_of_operand(cbf, o)) for i, o in enumerate(st.rv.ops)))
    else:
        return None

    def rw(x):
        if isinstance(x, tuple):
            if len(x) == 3 and x[0] == 'field' and isinstance(x[2], str) and x[2].isdigit() and x[1] in (('param', 1), ('deref', ('param', 1))) and int(x[2]) < len(caps):
                return caps[int(x[2])]
            r = tuple(rw(y) for y in x)
            if len(r) == 2 and r[0] == 'deref' and isinstance(r[1], tuple) and len(r[1]) == 2 and r[1][0] == 'ref':
                return r[1][1]
            return r
        return x
    # the closure's own arguments (parameters 2..) must not be used: the value is a constant of the captures
    if flow.term_contains(rt, lambda y: isinstance(y, tuple) and len(y) == 2 and y[0] == 'param' and isinstance(y[1], int) and y[1] >= 2):
        return None
    return rw(rt)


def closure_result(clo, args):
    """the value a closure term ('closure', path, captures) returns when called with the argument terms `args`, as a def-chain term
    with captures and arguments substituted; None when the closure has more than one return definition"""
    if _PF is None or not (isinstance(clo, tuple) and clo[:1] == ('closure',)):
        return None
    path, caps = clo[1], clo[2]
    bl = _PF.prog.by_short.get(strip_generics(path)) or _PF.prog.by_short.get(path) or []
    if len(bl) != 1:
        return None
    cbf = _PF.bf(bl[0])
    rt = term_of_local(cbf, 0)
    if not isinstance(rt, tuple) or rt[:1] == ('phi',):
        return None

    def rw(x):
        if isinstance(x, tuple):
            if len(x) == 3 and x[0] == 'field' and isinstance(x[2], str) and x[2].isdigit() and x[1] in (('param', 1), ('deref', ('param', 1))) and int(x[2]) < len(caps):
                return caps[int(x[2])]
            if len(x) == 2 and x[0] == 'param' and isinstance(x[1], int) and 2 <= x[1] < 2 + len(args):
                return args[x[1] - 2]
            r = tuple(rw(y) for y in x)
            if len(r) == 2 and r[0] == 'deref' and isinstance(r[1], tuple) and len(r[1]) == 2 and r[1][0] == 'ref':
                return r[1][1]
            return r
        return x
    return rw(rt)


ITEM = ('item',)


def search_returns(bf):
    """the `Some(..)` results of an Option-returning search function, in one shape for the loop form
    (`for x in it { if p(x) { return Some(f(x)) } } None`) and the iterator form (`it.find(|x| p(x)).map(f)`):
    [{'value': payload term, 'guards': path-condition entries, 'site': (bb, si)}]; in the iterator form the item is the term ITEM"""
    out = []
    body = bf.body
    for b in body.blocks:
        if b.cleanup or b.idx not in bf.cfg.reach:
            continue
        for si, s in enumerate(b.stmts):
            if s.k == 'assign' and s.lhs.is_local() and s.lhs.local == 0 and s.rv.k == 'agg' and s.rv.d.get('variant') == 'Some':
                out.append({'value': term_of_operand(bf, s.rv.ops[0]), 'guards': list(path_conditions(bf, b.idx)), 'site': (b.idx, si), 'form': 'loop'})
        t = b.term
        if t.k == 'call' and t.dest.is_local() and t.dest.local == 0:
            cn = callee_name(t)
            args = [term_of_operand(bf, a) for a in t.args]
            fmap = None
            inner = None
            if cn.endswith('Option::map') and len(args) == 2 and isinstance(args[1], tuple) and args[1][:1] == ('fn',):
                fmap, inner = args[1][1], args[0]
            elif cn.endswith('Iterator::find'):
                inner = ('call', cn, tuple(args), b.idx)
            while isinstance(inner, tuple) and inner and inner[0] in ('ref', 'deref') and len(inner) == 2:
                inner = inner[1]
            if isinstance(inner, tuple) and inner[:1] == ('call',) and inner[1].endswith('Iterator::find') and len(inner[2]) == 2:
                pred = closure_result(inner[2][1], [('ref', ITEM)])
                if pred is not None:
                    val = ITEM if fmap is None else ('call', fmap, (ITEM,), b.idx)
                    out.append({'value': val, 'guards': list(path_conditions(bf, b.idx)) + [(pred, (1,), None)], 'site': (b.idx, None), 'form': 'iter', 'iter': inner[2][0]})
    return out


class _Unknown(Exception):
    pass


_WIDTH = {'u8': 8, 'u16': 16, 'u32': 32, 'u64': 64, 'usize': 64, 'i8': 8, 'i16': 16, 'i32': 32, 'i64': 64, 'isize': 64}


def eval_term(t, env):
    """value of an integer / boolean / Option def-chain term when the terms in `env` (term -> int) are given; raises _Unknown for anything
    else. Used to decide guards over ONE counter by enumeration of a finite range (thresholds and moduli are small constants)."""
    if t in env:
        return env[t]
    if not isinstance(t, tuple) or not t:
        raise _Unknown()
    h = t[0]
    if h in ('ref', 'deref') and len(t) == 2:
        return eval_term(t[1], env)
    if h == 'const':
        return int(t[1]) if not isinstance(t[1], bool) else t[1]
    if h == 'cast':
        v = eval_term(t[2], env)
        if isinstance(v, bool):
            v = int(v)
        w = _WIDTH.get(t[1])
        if not isinstance(v, int) or w is None:
            raise _Unknown()
        v &= (1 << w) - 1
        if t[1].startswith('i') and v >= 1 << (w - 1):
            v -= 1 << w
        return v
    if h in ('Add', 'Sub', 'Mul', 'Div', 'Rem', 'BitAnd', 'BitOr', 'Shr', 'Shl') and len(t) == 3:
        a, b = eval_term(t[1], env), eval_term(t[2], env)
        if not (isinstance(a, int) and isinstance(b, int)):
            raise _Unknown()
        if h == 'Add':
            return a + b
        if h == 'Sub':
            if a - b < 0:
                raise _Unknown()        # would panic / wrap: not a value this decision may rely on
            return a - b
        if h == 'Mul':
            return a * b
        if h in ('Div', 'Rem'):
            if b == 0:
                raise _Unknown()
            return a // b if h == 'Div' else a % b
        if h == 'BitAnd':
            return a & b
        if h == 'BitOr':
            return a | b
        return a >> b if h == 'Shr' else a << b
    if h in ('Lt', 'Le', 'Gt', 'Ge', 'Eq', 'Ne') and len(t) == 3:
        a, b = eval_term(t[1], env), eval_term(t[2], env)
        return {'Lt': a < b, 'Le': a <= b, 'Gt': a > b, 'Ge': a >= b, 'Eq': a == b, 'Ne': a != b}[h]
    if h == 'Not' and len(t) == 2:
        v = eval_term(t[1], env)
        if isinstance(v, bool):
            return not v
        raise _Unknown()
    if h in ('index', 'cindex') and len(t) >= 3:
        base = eval_term(t[1], env)
        i_ = t[2] if isinstance(t[2], int) and not isinstance(t[2], bool) else eval_term(t[2], env)
        if isinstance(base, tuple) and base[:1] == ('bytes',) and isinstance(i_, int) and 0 <= i_ < len(base[1]):
            return base[1][i_]
        raise _Unknown()
    if h == 'call' and isinstance(t[1], str):
        nm = t[1]
        args = t[2]
        if nm.endswith(('::to_be_bytes', '::to_le_bytes')) and len(args) == 1:
            import re as _re
            m_ = _re.search(r'impl ([ui])(8|16|32|64)>', nm)
            v = eval_term(args[0], env)
            if m_ is None or not isinstance(v, int) or isinstance(v, bool):
                raise _Unknown()
            n_ = int(m_.group(2)) // 8
            v &= (1 << (8 * n_)) - 1
            bs_ = tuple((v >> (8 * k_)) & 0xFF for k_ in range(n_))
            return ('bytes', bs_[::-1] if nm.endswith('to_be_bytes') else bs_)
        if nm.endswith('::is_multiple_of') and len(args) == 2:
            a, b = eval_term(args[0], env), eval_term(args[1], env)
            return (a == 0) if b == 0 else a % b == 0
        if nm.endswith('::checked_sub') and len(args) == 2:
            a, b = eval_term(args[0], env), eval_term(args[1], env)
            return ('opt', a - b if a >= b else None)
        if nm.endswith('::saturating_sub') and len(args) == 2:
            a, b = eval_term(args[0], env), eval_term(args[1], env)
            return max(a - b, 0)
        if nm.endswith(('Option::is_some', 'Option::is_none')) and len(args) == 1:
            v = eval_term(args[0], env)
            if isinstance(v, tuple) and v[0] == 'opt':
                return (v[1] is not None) == nm.endswith('is_some')
        raise _Unknown()
    if h == 'discr' and len(t) == 2:
        v = eval_term(t[1], env)
        if isinstance(v, tuple) and v[0] == 'opt':
            return 1 if v[1] is not None else 0
        raise _Unknown()
    if h == 'field' and len(t) == 3 and t[2] == '0' and isinstance(t[1], tuple) and t[1][:1] == ('as',) and t[1][2] == 'Some':
        v = eval_term(t[1][1], env)
        if isinstance(v, tuple) and v[0] == 'opt' and v[1] is not None:
            return v[1]
        raise _Unknown()
    raise _Unknown()


def conds_hold(conds, env):
    """do the path conditions (in dominance order) all hold under env? True / False, or None when one cannot be evaluated"""
    try:
        for x in conds:
            v = eval_term(x[0], env)
            val = x[1]
            if isinstance(v, bool):
                want = True if cond_true(x) else False if cond_false(x) else None
                if want is None:
                    return None
                if v != want:
                    return False
            elif isinstance(v, int):
                if isinstance(val, tuple) and val[:1] == ('not',):
                    if v in val[1]:
                        return False
                elif isinstance(val, tuple) and v not in val:
                    return False
            else:
                return None
        return True
    except _Unknown:
        return None


def flag_meaning(bf, cond):
    """a condition on a boolean flag local that is set to true in exactly one place (`matches!`, `let ok = a && b`):
    returns (polarity, [conditions under which the flag is true that are not common to all its definitions]) or None"""
    t = cond[0]
    if not (isinstance(t, tuple) and t[:1] == ('phi',)) or not (cond_true(cond) or cond_false(cond)):
        return None
    defs = defs_with_conditions(bf, t[1])
    tds = [d for d in defs if d[0] in (('const', 1), ('const', True))]
    fds = [d for d in defs if d[0] in (('const', 0), ('const', False))]
    if len(tds) != 1 or len(tds) + len(fds) != len(defs) or not fds:
        return None
    common = None
    for d in fds:
        ks = [(x[0], x[1]) for x in d[1]]
        common = ks if common is None else [k for k in common if k in ks]
    spec = [x for x in tds[0][1] if (x[0], x[1]) not in (common or [])]
    return (cond_true(cond), spec)
