"""rule templates shared by property modules (DESIGN 3.1): effect enumeration, guards, helpers"""
from . import flow
from .flow import term_of_operand, term_of_local, term_of_place, term_str, strip_calls_bb
from .lir import strip_generics, strip_turbofish
from .runner import CheckError


def param_by_name(body, name):
    for n, p in body.dbg:
        if n == name and p.is_local() and 1 <= p.local <= body.argc:
            return p.local
    raise CheckError('missing anchor: parameter `%s` of %s' % (name, body.path))


def local_by_name(body, name):
    r = [p.local for n, p in body.dbg if n == name and p.is_local()]
    if not r:
        raise CheckError('missing anchor: local `%s` of %s' % (name, body.path))
    return r


def variant_discr(prog, adt_suffix, name):
    for p, a in prog.adts.items():
        if strip_generics(p).endswith(adt_suffix):
            for v in a['variants']:
                if v['name'] == name:
                    return v['discr']
    raise CheckError('missing anchor: variant %s::%s' % (adt_suffix, name))


def variants_of(prog, adt_suffix):
    for p, a in prog.adts.items():
        if strip_generics(p).endswith(adt_suffix):
            return {v['name']: v['discr'] for v in a['variants']}
    raise CheckError('missing anchor: enum %s' % adt_suffix)


def callee_name(t):
    return strip_generics(t.callee_res() or t.callee() or '?')


def effects(ctx, bf, roots):
    """all persistent-effect events in a body: direct stores and may-writing calls whose written root is
    one of `roots` (set of locals; for coroutine bodies: set of (1, upvar-index-string) handled by caller).
    returns list of dicts {bb, si, kind, what, root, path}"""
    ev = []
    for bb, si, s, root, path in bf.field_writes():
        if root in roots:
            ev.append({'bb': bb, 'si': si, 'kind': 'store', 'what': 'store %s' % '.'.join(path), 'root': root, 'path': path})
    for bb, t in bf.calls():
        for (root, path, how) in ctx.ef.call_effects(bf, t):
            if root in roots:
                ev.append({'bb': bb, 'si': None, 'kind': 'call', 'what': 'call %s (&mut %s)' % (callee_name(t), '.'.join(path) or 'param'),
                           'root': root, 'path': path, 'callee': callee_name(t), 'term': t})
    return ev


def one_call(bf, suffix):
    c = bf.calls_to(suffix)
    if len(c) != 1:
        raise CheckError('missing anchor: expected exactly one call to %s in %s, found %d' % (suffix, bf.body.path, len(c)))
    return c[0]


def edge_target_blocks(edges):
    return [v for (u, v) in edges]


def is_const_bool_arg(t, idx, val):
    a = t.args[idx]
    return a.const is not None and a.const.get('v') == (1 if val else 0)
