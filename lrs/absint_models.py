"""models of core / heapless functions for the abstract interpreter (DESIGN 3.2 'modelled intrinsics')"""
from .absint import Lin, TOP, B_UNK, INT_RANGES, Infeasible, cond_not, parse_ty, adt_head_and_args, split_generic_args, V_const
import re

OPT = 'core::option::Option'
RES = 'core::result::Result'


def guard_of(v, remap=None):
    """guard tag of an adt value, with variant indices remapped"""
    if v[0] != 'adt' or len(v) <= 6 or v[6] is None or v[6][0] != 'guard':
        return None
    g = v[6][1]
    if remap:
        g = {remap.get(k, k): f for k, f in g.items()}
    return ('guard', g)


def with_tag(v, tag):
    if tag is None or v is None or v[0] != 'adt':
        return v
    return tuple(v[:6]) + (tag,) if len(v) >= 6 else ('adt', v[1], v[2], v[3], None, (), tag)


def ws_resolved(an, c):
    """the call resolves to a function whose body is in the analysed workspace"""
    p_ = c.get('res')
    if not p_:
        return False
    from .lir import strip_turbofish
    l_ = an.prog.by_short.get(strip_turbofish(p_))
    return bool(l_) and len(l_) == 1


def mk_option(payload, variants=None):
    return ('adt', OPT, variants, {(1, '0'): payload} if payload is not None else {}, None, ())


def mk_some(payload):
    return ('adt', OPT, frozenset([1]), {(1, '0'): payload}, None, ())


def mk_none():
    return ('adt', OPT, frozenset([0]), {}, None, ())


def mk_result(ok, err, variants=None):
    fl = {}
    if ok is not None:
        fl[(0, '0')] = ok
    if err is not None:
        fl[(1, '0')] = err
    return ('adt', RES, variants, fl, None, ())


def deref_val(an, v, frame, st):
    """value behind a reference value"""
    if v[0] == 'ref':
        return an.read_ptr(v[1], frame, st)
    return v


def as_sref(an, v, frame, st):
    if v[0] == 'sref':
        return v
    if v[0] == 'ref':
        sr = an._as_sref(v[1], frame, st)
        if sr is not None:
            return sr
        inner = an.read_ptr(v[1], frame, st)
        if inner[0] == 'sref':
            return inner
        if inner[0] == 'hvec':
            return ('sref', ('HV', inner[3]), Lin.const(0), inner[2])
    if v[0] == 'hvec':
        return ('sref', ('HV', v[3]), Lin.const(0), v[2])
    if v[0] == 'array' and v[1] is not None:
        return None
    return None


def variant_known(v):
    return v[0] == 'adt' and v[2] is not None


def register(an):
    M = {}
    S = []
    an.models = M
    an.suffix_models = S

    def model(*names):
        def deco(f):
            for n in names:
                M[n] = f
            return f
        return deco

    def suffix(*names):
        def deco(f):
            for n in names:
                S.append((n, f))
            return f
        return deco

    # ------------------------------------------------------------------ operator traits on primitive integers (`a | *b` written `a | b`
    # with b: &u8 goes through `impl BitOr<&u8> for u8`; the forwarding impls do what the operator does)
    OPS = {'core::ops::bit::BitOr::bitor': 'BitOr', 'core::ops::bit::BitAnd::bitand': 'BitAnd', 'core::ops::bit::BitXor::bitxor': 'BitXor',
           'core::ops::arith::Add::add': 'Add', 'core::ops::arith::Sub::sub': 'Sub', 'core::ops::arith::Mul::mul': 'Mul',
           'core::ops::bit::Shl::shl': 'Shl', 'core::ops::bit::Shr::shr': 'Shr'}

    @model(*OPS)
    def m_int_operator(an, t, args, frame, st, c):
        ga = [an.subst_ty(g, frame) for g in (c.get('ga') or [])]
        if len(ga) != 2 or len(args) != 2:
            return NotImplemented
        base = [g.lstrip('&').strip() for g in ga]
        if base[0] not in INT_RANGES or base[1] not in INT_RANGES:
            return NotImplemented
        vals = []
        for g, a in zip(ga, args):
            vals.append(deref_val(an, a, frame, st) if g.startswith('&') else a)
        op = OPS[c['fn']]
        if op in ('Add', 'Sub', 'Mul'):
            # the operator panics on overflow in debug builds: the obligation is recorded like for the MIR operator
            r = an.binop(op + 'WithOverflow', vals[0], vals[1], base[0], frame, st)
            if r is not None and r[0] == 'tuple':
                flag = r[1][1]
                okf = flag[0] == 'bool' and flag[1] == ('const', False)
                an.obligation(frame, 'overflow', op, t.sp, okf, None)
                return r[1][0]
            return r
        return an.binop(op, vals[0], vals[1], base[0], frame, st)

    # ------------------------------------------------------------------ panics
    @suffix('core::panicking::panic', 'core::panicking::panic_fmt', 'core::panicking::panic_explicit', 'core::panicking::unreachable_display',
            'core::panicking::panic_display', 'core::panicking::panic_nounwind', 'core::panicking::assert_failed',
            'core::option::expect_failed', 'core::result::unwrap_failed', 'core::option::unwrap_failed', 'core::panicking::panic_bounds_check',
            'core::slice::index::slice_index_fail', 'core::slice::index::slice_end_index_len_fail', 'core::slice::index::slice_start_index_len_fail',
            'core::slice::index::slice_index_order_fail', 'core::str::slice_error_fail', 'core::cell::panic_already_borrowed')
    def m_panic(an, t, args, frame, st, c):
        from .absint_interp import DIVERGE
        kind = 'panic'
        desc = 'explicit panic'
        if t.exp:
            desc = 'explicit ' + re.sub(r'[^A-Za-z_!]', '', t.exp.split('(')[0])[:24]
        an.obligation(frame, kind, desc, t.sp, False, 'panic call reachable in the abstract state')
        return DIVERGE

    @suffix('core::panicking::panic_const')
    def m_panic_const(an, t, args, frame, st, c):
        return m_panic(an, t, args, frame, st, c)

    an.models_panic = m_panic

    def _is_panic_const(nm):
        return 'core::panicking::panic_const::' in nm
    an.is_panic_const = _is_panic_const

    # ------------------------------------------------------------------ Option / Result
    @model('core::option::Option::unwrap', 'core::option::Option::expect')
    def m_opt_unwrap(an, t, args, frame, st, c):
        v = args[0]
        ok = v[0] == 'adt' and v[2] is not None and v[2] <= frozenset([1])
        an.obligation(frame, 'unwrap', 'Option::' + c['fn'].split('::')[-1], t.sp, ok, 'value may be None: %s' % (v[2] if v[0] == 'adt' else v[0],))
        if v[0] == 'adt':
            if v[2] is not None and 1 not in v[2]:
                from .absint_interp import DIVERGE
                return DIVERGE
            return an.field_of(v, 1, '0', st, frame)
        return None

    @model('core::result::Result::unwrap', 'core::result::Result::expect')
    def m_res_unwrap(an, t, args, frame, st, c):
        v = args[0]
        ok = v[0] == 'adt' and v[2] is not None and v[2] <= frozenset([0])
        an.obligation(frame, 'unwrap', 'Result::' + c['fn'].split('::')[-1], t.sp, ok, 'value may be Err: %s' % (v[2] if v[0] == 'adt' else v[0],))
        if v[0] == 'adt':
            if v[2] is not None and 0 not in v[2]:
                from .absint_interp import DIVERGE
                return DIVERGE
            return an.field_of(v, 0, '0', st, frame)
        return None

    @model('core::option::Option::is_some', 'core::option::Option::is_none', 'core::result::Result::is_ok', 'core::result::Result::is_err')
    def m_is_variant(an, t, args, frame, st, c):
        nm = c['fn'].split('::')[-1]
        v = deref_val(an, args[0], frame, st)
        want = {'is_some': 1, 'is_none': 0, 'is_ok': 0, 'is_err': 1}[nm]
        if v[0] == 'adt' and v[2] is not None:
            if v[2] == frozenset([want]):
                return ('bool', ('const', True))
            if want not in v[2]:
                return ('bool', ('const', False))
        # remember which place was tested so that the branch can narrow it
        if args[0][0] == 'ref':
            return ('bool', ('variant', args[0][1], want))
        return ('bool', B_UNK)

    @model('core::option::Option::ok_or', 'core::option::Option::ok_or_else')
    def m_ok_or(an, t, args, frame, st, c):
        v = args[0]
        if v[0] == 'adt':
            vs = None if v[2] is None else frozenset(0 if x == 1 else 1 for x in v[2])
            return with_tag(mk_result(an.field_of(v, 1, '0', st, frame), args[1] if len(args) > 1 and not c['fn'].endswith('_else') else None, vs),
                            guard_of(v, {1: 0, 0: 1}))
        return None

    @model('core::result::Result::ok')
    def m_res_ok(an, t, args, frame, st, c):
        v = args[0]
        if v[0] == 'adt':
            vs = None if v[2] is None else frozenset(1 if x == 0 else 0 for x in v[2])
            return with_tag(mk_option(an.field_of(v, 0, '0', st, frame), vs), guard_of(v, {0: 1, 1: 0}))
        return None

    @model('core::result::Result::map_err')
    def m_map_err(an, t, args, frame, st, c):
        v = args[0]
        if v[0] == 'adt':
            return with_tag(mk_result(an.field_of(v, 0, '0', st, frame), None, v[2]), guard_of(v))
        return None

    @model('core::option::Option::unwrap_or', 'core::result::Result::unwrap_or')
    def m_unwrap_or(an, t, args, frame, st, c):
        v = args[0]
        okv = 1 if 'Option' in c['fn'] else 0
        if v[0] == 'adt' and v[2] is not None:
            if v[2] == frozenset([okv]):
                return an.field_of(v, okv, '0', st, frame)
            if okv not in v[2]:
                return args[1]
        # join of both: if ints, hull
        p = an.field_of(v, okv, '0', st, frame) if v[0] == 'adt' else TOP
        d = args[1]
        if p[0] == 'int' and d[0] == 'int':
            lo = [st.lb(p[1]), st.lb(d[1])]
            hi = [st.ub(p[1]), st.ub(d[1])]
            ty = an.subst_ty(t.dest.ty, frame)
            if ty in INT_RANGES:
                return ('int', an.fresh(st, ty, None if None in lo else min(lo), None if None in hi else max(hi), 'or'))
        return None

    @model('core::option::Option::map', 'core::result::Result::map', 'core::option::Option::and_then', 'core::option::Option::unwrap_or_else',
           'core::option::Option::map_or', 'core::option::Option::filter', 'core::option::Option::is_some_and')
    def m_opt_map(an, t, args, frame, st, c):
        nm = c['fn'].split('::')[-1]
        v = args[0]
        okv = 1 if 'Option' in c['fn'] else 0
        f = args[-1]
        if nm == 'unwrap_or_else':
            if v[0] == 'adt' and v[2] == frozenset([okv]):
                return an.field_of(v, okv, '0', st, frame)
            r = call_closure(an, f, [], frame, st, t)
            p = an.field_of(v, okv, '0', st, frame) if v[0] == 'adt' else TOP
            if v[0] == 'adt' and v[2] is not None and okv not in v[2]:
                return r
            return join_vals(an, st, p, r, an.subst_ty(t.dest.ty, frame))
        if v[0] != 'adt':
            call_closure(an, f, [TOP], frame, st, t)
            return None
        if v[2] is not None and okv not in v[2]:
            if nm in ('map', 'and_then', 'filter'):
                return v
            if nm == 'is_some_and':
                return ('bool', ('const', False))
            if nm == 'map_or':
                return args[1]
            return None
        payload = an.field_of(v, okv, '0', st, frame)
        if nm == 'filter':
            call_closure(an, f, [('ref', ('T',))], frame, st, t)
            return mk_option(payload, None if v[2] is None or 1 in v[2] else v[2])
        r = call_closure(an, f, [payload], frame, st, t)
        if nm == 'map':
            if okv == 1:
                return mk_option(r, v[2])
            return mk_result(r, an.field_of(v, 1, '0', st, frame), v[2])
        if nm == 'and_then':
            if r is not None and r[0] == 'adt' and v[2] == frozenset([1]):
                return r
            if r is not None and r[0] == 'adt':
                return ('adt', r[1], None if r[2] is None else r[2] | frozenset([0]), r[3]) + tuple(r[4:])
            return None
        if nm == 'is_some_and':
            if v[2] == frozenset([1]):
                return r
            return ('bool', B_UNK)
        if nm == 'map_or' and r is not None:
            if v[2] == frozenset([1]):
                return r
            return join_vals(an, st, args[1], r, an.subst_ty(t.dest.ty, frame))
        return None

    @model('core::ops::try_trait::Try::branch')
    def m_try_branch(an, t, args, frame, st, c):
        v = args[0]
        if v[0] == 'adt' and v[1] == RES:
            # ControlFlow: Continue(0) = Ok payload, Break(1) = Result<Infallible, E>
            fl = {}
            okp = an.field_of(v, 0, '0', st, frame)
            fl[(0, '0')] = okp
            fl[(1, '0')] = mk_result(None, an.field_of(v, 1, '0', st, frame), frozenset([1]))
            return ('adt', 'core::ops::control_flow::ControlFlow', v[2], fl, None, (), guard_of(v))
        if v[0] == 'adt' and v[1] == OPT:
            vs = None if v[2] is None else frozenset(0 if x == 1 else 1 for x in v[2])
            fl = {(0, '0'): an.field_of(v, 1, '0', st, frame), (1, '0'): mk_none()}
            return ('adt', 'core::ops::control_flow::ControlFlow', vs, fl, None, (), guard_of(v, {1: 0, 0: 1}))
        return None

    @model('core::ops::try_trait::FromResidual::from_residual')
    def m_from_residual(an, t, args, frame, st, c):
        v = args[0]
        ty = an.subst_ty(t.dest.ty, frame)
        if ty.startswith(OPT):
            return mk_none()
        if ty.startswith(RES):
            return mk_result(None, None, frozenset([1]))
        return None

    # ------------------------------------------------------------------ slices
    @model('core::slice::<impl [T]>::len', 'core::str::<impl str>::len')
    def m_len(an, t, args, frame, st, c):
        sr = as_sref(an, args[0], frame, st)
        if sr is not None:
            return ('int', sr[3])
        return ('int', an.fresh(st, 'usize', 0, 2**63 - 1, 'len'))

    @model('core::slice::<impl [T]>::is_empty', 'core::str::<impl str>::is_empty')
    def m_is_empty(an, t, args, frame, st, c):
        sr = as_sref(an, args[0], frame, st)
        if sr is not None:
            return an.binop('Eq', ('int', sr[3]), V_const(0), 'usize', frame, st)
        return ('bool', B_UNK)

    def range_bounds(an, rv, ln, frame, st):
        """(start, end) Lin for a range value applied to a slice of length ln"""
        if rv[0] != 'adt':
            return None
        head = rv[1]
        g = lambda n: an.as_int(an.field_of(rv, 0, n, st, frame), st)
        if head == 'core::ops::range::Range':
            return g('start'), g('end')
        if head == 'core::ops::range::RangeTo':
            return Lin.const(0), g('end')
        if head == 'core::ops::range::RangeFrom':
            return g('start'), ln
        if head == 'core::ops::range::RangeFull':
            return Lin.const(0), ln
        if head == 'core::ops::range::RangeInclusive':
            s, e = g('start'), g('end')
            return s, (e + Lin.const(1)) if e is not None else None
        if head == 'core::ops::range::RangeToInclusive':
            e = g('end')
            return Lin.const(0), (e + Lin.const(1)) if e is not None else None
        return None

    @model('core::ops::index::Index::index', 'core::ops::index::IndexMut::index_mut')
    def m_index(an, t, args, frame, st, c):
        ga = c.get('ga', [])
        self_ty = ga[0] if ga else ''
        idx_ty = ga[1] if len(ga) > 1 else ''
        sr = as_sref(an, args[0], frame, st)
        if sr is None and self_ty.replace(' ', '').startswith('hybrid_array::Array<u8,'):
            # fixed-size byte array of the RustCrypto crates: length from its typenum parameter
            n_ = typenum_value(self_ty)
            if n_ is not None:
                sr = ('sref', ('O', 'hyb#%s' % an.nid()), Lin.const(0), Lin.const(n_))
        if 'heapless' in self_ty and sr is None:
            return NotImplemented
        if sr is None and not (self_ty.startswith('[') or 'heapless' in self_ty or 'hybrid_array' in self_ty):
            return NotImplemented
        if 'Range' in idx_ty:
            if sr is None:
                an.obligation(frame, 'slice', 'range index', t.sp, False, 'slice value unknown')
                return None
            rb = range_bounds(an, args[1], sr[3], frame, st)
            if rb is None or rb[0] is None or rb[1] is None:
                an.obligation(frame, 'slice', 'range index', t.sp, False, 'range bounds unknown')
                return None
            s, e = rb
            ok1 = st.prove_cmp('Le', s, e)
            ok2 = st.prove_cmp('Le', e, sr[3])
            why = None
            if not (ok1 and ok2):
                why = 'range %r..%r ([%s,%s]..[%s,%s]) vs len %r [%s,%s]' % (s, e, st.lb(s), st.ub(s), st.lb(e), st.ub(e), sr[3], st.lb(sr[3]), st.ub(sr[3]))
            an.obligation(frame, 'slice', 'range index', t.sp, ok1 and ok2, why, (s, e, sr[3]))
            try:
                st.assume(('cmp', 'Le', s, e))
                st.assume(('cmp', 'Le', e, sr[3]))
            except Infeasible:
                from .absint_interp import DIVERGE
                return DIVERGE
            ln = e - s
            lb_ = st.lb(ln)
            if (lb_ is None or lb_ < 0) and not ln.is_const():
                # the indexing succeeded, so 0 <= e - s; intervals alone do not show it (it follows from the relation s <= e):
                # name the length, give it the non-negative range and keep it tied to e - s
                ub_ = st.ub(ln)
                n_ = an.fresh(st, 'usize', 0, ub_ if (ub_ is not None and ub_ >= 0) else None, 'slen')
                try:
                    st.assume(('cmp', 'Le', n_, ln))
                    st.assume(('cmp', 'Le', ln, n_))
                except Infeasible:
                    pass
                ln = n_
            return ('sref', sr[1], sr[2] + s, ln)
        # usize index
        if sr is None:
            an.obligation(frame, 'bounds', 'index', t.sp, False, 'slice value unknown')
            return None
        ix = an.as_int(args[1], st)
        if ix is None:
            an.obligation(frame, 'bounds', 'index', t.sp, False, 'index unknown')
            return None
        ok = st.prove_cmp('Lt', ix, sr[3])
        an.obligation(frame, 'bounds', 'index', t.sp, ok, None if ok else 'index %r [%s,%s] vs len %r [%s,%s]' % (ix, st.lb(ix), st.ub(ix), sr[3], st.lb(sr[3]), st.ub(sr[3])), (ix, sr[3]))
        try:
            st.assume(('cmp', 'Lt', ix, sr[3]))
        except Infeasible:
            from .absint_interp import DIVERGE
            return DIVERGE
        return ('ref', ('E', sr, ix))

    @model('core::slice::<impl [T]>::copy_from_slice', 'core::slice::<impl [T]>::clone_from_slice')
    def m_copy_from_slice(an, t, args, frame, st, c):
        d = as_sref(an, args[0], frame, st)
        s = as_sref(an, args[1], frame, st)
        if d is None or s is None:
            an.obligation(frame, 'slice', 'copy_from_slice length', t.sp, False, 'slice value unknown')
            return ('tuple', ())
        ok = st.prove_cmp('Eq', d[3], s[3])
        an.obligation(frame, 'slice', 'copy_from_slice length', t.sp, ok, None if ok else 'dst len %r [%s,%s] vs src len %r [%s,%s]' % (
            d[3], st.lb(d[3]), st.ub(d[3]), s[3], st.lb(s[3]), st.ub(s[3])), (d[3], s[3]))
        try:
            st.assume(('cmp', 'Eq', d[3], s[3]))
        except Infeasible:
            from .absint_interp import DIVERGE
            return DIVERGE
        # element-wise copy when the length is a small constant
        n = st.values(d[3])
        if n is not None and len(n) == 1 and next(iter(n)) <= 32 and d[2].is_const():
            for i in range(next(iter(n))):
                v = an.read_elem(s, Lin.const(i), frame, st)
                an.write_elem(d, Lin.const(i), v, frame, st)
        else:
            an.havoc_slice(d, st)
        return ('tuple', ())

    @model('core::slice::<impl [T]>::fill')
    def m_fill(an, t, args, frame, st, c):
        d = as_sref(an, args[0], frame, st)
        if d is not None:
            an.havoc_slice(d, st)
        return ('tuple', ())

    @model('core::slice::<impl [T]>::get', 'core::slice::<impl [T]>::get_mut')
    def m_get(an, t, args, frame, st, c):
        sr = as_sref(an, args[0], frame, st)
        ix = an.as_int(args[1], st) if args[1][0] in ('int', 'bool') else None
        if sr is not None and ix is not None:
            if st.prove_cmp('Lt', ix, sr[3]):
                return mk_some(('ref', ('E', sr, ix)))
            if st.prove_cmp('Ge', ix, sr[3]):
                return mk_none()
            return mk_option(('ref', ('E', sr, ix)), None)
        if sr is not None and args[1][0] == 'adt':
            rb = range_bounds(an, args[1], sr[3], frame, st)
            if rb and rb[0] is not None and rb[1] is not None:
                sub = ('sref', sr[1], sr[2] + rb[0], rb[1] - rb[0])
                ok1 = st.prove_cmp('Le', rb[0], rb[1])
                ok2 = st.prove_cmp('Le', rb[1], sr[3])
                if ok1 and ok2:
                    return mk_some(sub)
                # Some exactly when start <= end <= len: those facts hold whenever the result is Some
                v = mk_option(sub, frozenset([0, 1]))
                return v + (('guard', {1: frozenset([rb[0] - rb[1], rb[1] - sr[3]])}),)
        return None

    @model('core::slice::<impl [T]>::first', 'core::slice::<impl [T]>::last')
    def m_first(an, t, args, frame, st, c):
        sr = as_sref(an, args[0], frame, st)
        if sr is None:
            return None
        ix = Lin.const(0) if c['fn'].endswith('first') else sr[3] - Lin.const(1)
        if st.prove_cmp('Gt', sr[3], Lin.const(0)):
            return mk_some(('ref', ('E', sr, ix)))
        return mk_option(('ref', ('E', sr, ix)), None)

    @model('core::slice::<impl [T]>::split_at', 'core::slice::<impl [T]>::split_at_mut')
    def m_split_at(an, t, args, frame, st, c):
        sr = as_sref(an, args[0], frame, st)
        mid = an.as_int(args[1], st)
        if sr is None or mid is None:
            an.obligation(frame, 'slice', 'split_at', t.sp, False, 'unknown')
            return None
        ok = st.prove_cmp('Le', mid, sr[3])
        an.obligation(frame, 'slice', 'split_at', t.sp, ok, None if ok else 'mid %r vs len %r' % (mid, sr[3]))
        return ('tuple', (('sref', sr[1], sr[2], mid), ('sref', sr[1], sr[2] + mid, sr[3] - mid)))

    @model('core::slice::<impl [T]>::split_first', 'core::slice::<impl [T]>::split_last')
    def m_split_first(an, t, args, frame, st, c):
        sr = as_sref(an, args[0], frame, st)
        if sr is None:
            return None
        if c['fn'].endswith('first'):
            p = ('tuple', (('ref', ('E', sr, Lin.const(0))), ('sref', sr[1], sr[2] + Lin.const(1), sr[3] - Lin.const(1))))
        else:
            p = ('tuple', (('ref', ('E', sr, sr[3] - Lin.const(1))), ('sref', sr[1], sr[2], sr[3] - Lin.const(1))))
        if st.prove_cmp('Gt', sr[3], Lin.const(0)):
            return mk_some(p)
        if st.prove_cmp('Eq', sr[3], Lin.const(0)):
            return mk_none()
        return mk_option(p, None)

    @model('core::convert::TryFrom::try_from', 'core::convert::TryInto::try_into')
    def m_try_from(an, t, args, frame, st, c):
        ty = an.subst_ty(t.dest.ty, frame)
        # Result<[T; N], _> / Result<&[T; N], _> from a slice
        head, targs = adt_head_and_args(ty)
        if head == RES and targs:
            okt = parse_ty(targs[0])
            arr = okt if okt[0] == 'array' else (okt[2] if okt[0] == 'ref' and okt[2][0] == 'array' else None)
            sr = as_sref(an, args[0], frame, st)
            if arr is not None and sr is not None:
                n = an.const_usize(arr[2], frame)
                if n is not None:
                    if okt[0] == 'ref':
                        okv = ('ref', ('SLA', sr, n))   # reference to an array view of the slice
                        okv = ('sref', sr[1], sr[2], Lin.const(n))
                    else:
                        okv = ('array', n, {}, None, None, _elem_ty(arr))
                    if st.prove_cmp('Eq', sr[3], Lin.const(n)):
                        return mk_result(okv, None, frozenset([0]))
                    if st.prove_cmp('Ne', sr[3], Lin.const(n)):
                        return mk_result(None, None, frozenset([1]))
                    return ('adt', RES, None, {(0, '0'): okv}, None, (), ('lencheck', sr[3], n))
            # &mut hybrid_array::Array<u8, typenum N> from a slice: Ok iff len == N
            if 'hybrid_array::Array<u8,' in targs[0].replace(' ', '') or 'hybrid_array::Array<u8, ' in targs[0]:
                n = typenum_value(targs[0])
                if n is not None and sr is not None:
                    okv = ('sref', sr[1], sr[2], Lin.const(n))
                    if st.prove_cmp('Eq', sr[3], Lin.const(n)):
                        return mk_result(okv, None, frozenset([0]))
                    if st.prove_cmp('Ne', sr[3], Lin.const(n)):
                        return mk_result(None, None, frozenset([1]))
                    return ('adt', RES, None, {(0, '0'): okv}, None, (), ('lencheck', sr[3], n))
            # integer conversions
            if okt[0] == 'int' and args[0][0] == 'int':
                lo, hi = INT_RANGES[okt[1]]
                lin = args[0][1]
                if st.prove_le0(lin - Lin.const(hi)) and st.prove_le0(Lin.const(lo) - lin):
                    return mk_result(('int', lin), None, frozenset([0]))
                return mk_result(('int', an.fresh(st, okt[1], None, None, 'tryfrom')), None, None)
        return NotImplemented

    def _elem_ty(arr):
        from .absint import _ty_str
        return _ty_str(arr[1])

    @model('core::array::<impl [T; N]>::as_slice', 'core::array::<impl [T; N]>::as_mut_slice', 'core::convert::AsRef::as_ref', 'core::convert::AsMut::as_mut',
           'core::borrow::Borrow::borrow', 'core::ops::deref::Deref::deref', 'core::ops::deref::DerefMut::deref_mut',
           'heapless::vec::VecInner::as_slice', 'heapless::vec::VecInner::as_mut_slice')
    def m_as_slice(an, t, args, frame, st, c):
        if ws_resolved(an, c):
            return NotImplemented
        ty = an.subst_ty(t.dest.ty, frame)
        pt = parse_ty(ty)
        if pt[0] == 'ref' and pt[2][0] in ('slice', 'str'):
            sr = as_sref(an, args[0], frame, st)
            if sr is not None:
                return sr
            # &[T; N] typed argument of unknown content
            at = parse_ty(an.subst_ty(t.args[0].ty or '', frame))
            while at[0] == 'ref':
                at = at[2]
            if at[0] == 'array':
                n = an.const_usize(at[2], frame)
                if n is not None and args[0][0] == 'ref':
                    return ('sref', args[0][1], Lin.const(0), Lin.const(n))
            return None
        return NotImplemented

    # ------------------------------------------------------------------ integer helpers
    def int_ty_of(name):
        m = re.search(r'<impl (u8|u16|u32|u64|u128|usize|i8|i16|i32|i64|i128|isize)>', name)
        return m.group(1) if m else None

    @suffix('>::wrapping_add', '>::wrapping_sub', '>::wrapping_mul')
    def m_wrapping(an, t, args, frame, st, c):
        ty = an.subst_ty(t.dest.ty, frame)
        if ty not in INT_RANGES:
            return NotImplemented
        op = {'add': 'Add', 'sub': 'Sub', 'mul': 'Mul'}[c['fn'].rsplit('_', 1)[1]]
        if op in ('Add', 'Sub'):
            a, b = an.as_int(args[0], st), an.as_int(args[1], st)
            if a is not None and b is not None:
                lo, hi = INT_RANGES[ty]
                r = a + b if op == 'Add' else a - b
                span = hi - lo + 1
                for k_ in (0, -1, 1):
                    rk = r + Lin.const(k_ * span)
                    if st.prove_le0(rk - Lin.const(hi)) and st.prove_le0(Lin.const(lo) - rk):
                        return ('int', rk)
        r = an.binop(op, args[0], args[1], ty, frame, st)
        return r

    @model('core::bool::<impl bool>::then_some')
    def m_then_some(an, t, args, frame, st, c):
        b = args[0]
        if b[0] == 'bool' and b[1][0] == 'const':
            return mk_some(args[1]) if b[1][1] else mk_none()
        if b[0] == 'bool' and b[1][0] in ('cmp', 'and', 'not'):
            # decide the condition in the current state where possible
            try:
                s1 = st.copy()
                s1.assume(b[1])
                can_true = True
            except Infeasible:
                can_true = False
            try:
                s2 = st.copy()
                s2.assume(cond_not(b[1]))
                can_false = True
            except Infeasible:
                can_false = False
            if can_true and not can_false:
                return mk_some(args[1])
            if can_false and not can_true:
                return mk_none()
        return mk_option(args[1], frozenset([0, 1]))

    @model('core::bool::<impl bool>::then')
    def m_then(an, t, args, frame, st, c):
        # b.then(f): Some(f()) when b holds, None otherwise - followed when b is decided in the current state
        b = args[0]
        if len(args) != 2 or args[1][0] != 'closure' or b[0] != 'bool':
            return NotImplemented
        verdict = None
        if b[1][0] == 'const':
            verdict = bool(b[1][1])
        elif b[1][0] in ('cmp', 'and', 'not'):
            try:
                s1 = st.copy()
                s1.assume(b[1])
                can_true = True
            except Infeasible:
                can_true = False
            try:
                s2 = st.copy()
                s2.assume(cond_not(b[1]))
                can_false = True
            except Infeasible:
                can_false = False
            if can_true != can_false:
                verdict = can_true
        if verdict is None:
            return NotImplemented
        if not verdict:
            return mk_none()
        r = call_closure(an, args[1], [], frame, st, t)
        return mk_some(r) if r is not None else NotImplemented

    @suffix('>::saturating_add', '>::saturating_sub')
    def m_saturating(an, t, args, frame, st, c):
        ty = an.subst_ty(t.dest.ty, frame)
        if ty not in INT_RANGES:
            return NotImplemented
        a, b = an.as_int(args[0], st), an.as_int(args[1], st)
        if a is None or b is None:
            return None
        lo, hi = INT_RANGES[ty]
        r = a + b if c['fn'].endswith('add') else a - b
        if st.prove_le0(r - Lin.const(hi)) and st.prove_le0(Lin.const(lo) - r):
            return ('int', r)
        l, u = st.lb(r), st.ub(r)
        if u is not None and u <= lo:
            return V_const(lo)
        if l is not None and l >= hi:
            return V_const(hi)
        return ('int', an.fresh(st, ty, lo if l is None else min(max(l, lo), hi), hi if u is None else max(min(u, hi), lo), 'sat'))

    @suffix('>::checked_add', '>::checked_sub', '>::checked_mul', '>::checked_div')
    def m_checked(an, t, args, frame, st, c):
        pt = adt_head_and_args(an.subst_ty(t.dest.ty, frame))
        if pt[0] != OPT or not pt[1] or pt[1][0] not in INT_RANGES:
            return NotImplemented
        ty = pt[1][0]
        a, b = an.as_int(args[0], st), an.as_int(args[1], st)
        if a is None or b is None:
            return None
        lo, hi = INT_RANGES[ty]
        opn = c['fn'].rsplit('_', 1)[1]
        if opn in ('add', 'sub'):
            r = a + b if opn == 'add' else a - b
            if st.prove_le0(r - Lin.const(hi)) and st.prove_le0(Lin.const(lo) - r):
                return mk_some(('int', r))
            if st.prove_le0(Lin.const(hi + 1) - r) or st.prove_le0(r - Lin.const(lo - 1)):
                return mk_none()
            # Some(r) with the range constraint attached when the Some variant is selected
            return ('adt', OPT, None, {(1, '0'): ('int', r)}, None, (), ('inrange', r, lo, hi))
        return mk_option(('int', an.fresh(st, ty)), None)

    @suffix('core::cmp::Ord::min', 'core::cmp::Ord::max', 'core::cmp::min', 'core::cmp::max')
    def m_minmax(an, t, args, frame, st, c):
        ty = an.subst_ty(t.dest.ty, frame)
        if ty not in INT_RANGES:
            return NotImplemented
        a, b = an.as_int(args[0], st), an.as_int(args[1], st)
        if a is None or b is None:
            return None
        ismin = c['fn'].endswith('min')
        if st.prove_cmp('Le', a, b):
            return ('int', a if ismin else b)
        if st.prove_cmp('Le', b, a):
            return ('int', b if ismin else a)
        la, ua, lb_, ub_ = st.lb(a), st.ub(a), st.lb(b), st.ub(b)
        f = min if ismin else max
        lo = None if la is None or lb_ is None else f(la, lb_)
        hi = None if ua is None or ub_ is None else f(ua, ub_)
        if ismin:
            if hi is None:
                hi = ua if ua is not None else ub_
            if lo is None:
                lo = None
        else:
            if lo is None:
                lo = la if la is not None else lb_
        r = an.fresh(st, ty, lo, hi, 'min' if ismin else 'max')
        # relational: min(a,b) <= a, <= b ; max >= a, >= b
        if ismin:
            st.cons.add(r - a)
            st.cons.add(r - b)
        else:
            st.cons.add(a - r)
            st.cons.add(b - r)
        return ('int', r)

    @suffix('core::cmp::Ord::clamp')
    def m_clamp(an, t, args, frame, st, c):
        ty = an.subst_ty(t.dest.ty, frame)
        if ty not in INT_RANGES:
            return NotImplemented
        x, lo, hi = an.as_int(args[0], st), an.as_int(args[1], st), an.as_int(args[2], st)
        l = st.lb(lo) if lo is not None else None
        h = st.ub(hi) if hi is not None else None
        if x is not None and lo is not None and hi is not None:
            if st.prove_cmp('Le', lo, x) and st.prove_cmp('Le', x, hi):
                return ('int', x)
            if st.prove_cmp('Le', x, lo):
                return ('int', lo)
            if st.prove_cmp('Le', hi, x):
                return ('int', hi)
            xl, xu = st.lb(x), st.ub(x)
            if l is not None and h is not None and l <= h:
                l2 = l if xl is None else min(max(xl, l), h)
                h2 = h if xu is None else max(min(xu, h), l)
                return ('int', an.fresh(st, ty, l2, h2, 'clamp'))
        return ('int', an.fresh(st, ty, l, h, 'clamp'))

    @suffix('>::count_ones', '>::count_zeros', '>::leading_zeros', '>::trailing_zeros')
    def m_count(an, t, args, frame, st, c):
        ty = int_ty_of(c['fn']) or 'u64'
        bits = {'u8': 8, 'u16': 16, 'u32': 32, 'u64': 64, 'usize': 64, 'u128': 128, 'i8': 8, 'i16': 16, 'i32': 32, 'i64': 64, 'isize': 64, 'i128': 128}[ty]
        a = an.as_int(args[0], st)
        if a is not None and c['fn'].endswith('count_ones'):
            va = st.values(a)
            if va is not None:
                return an._from_set(st, 'u32', {bin(x & ((1 << bits) - 1)).count('1') for x in va})
            u = st.ub(a)
            if u is not None and st.lb(a) is not None and st.lb(a) >= 0:
                return ('int', an.fresh(st, 'u32', 0, min(bits, u.bit_length()), 'pop'))
        return ('int', an.fresh(st, 'u32', 0, bits, 'cnt'))

    @suffix('>::is_multiple_of', '>::is_power_of_two')
    def m_boolish(an, t, args, frame, st, c):
        return ('bool', B_UNK)

    @suffix('>::pow')
    def m_pow(an, t, args, frame, st, c):
        ty = an.subst_ty(t.dest.ty, frame)
        if ty not in INT_RANGES:
            return NotImplemented
        a, b = an.as_int(args[0], st), an.as_int(args[1], st)
        if a is not None and b is not None:
            va, vb = st.values(a), st.values(b)
            lo, hi = INT_RANGES[ty]
            if va is not None and vb is not None and len(va) * len(vb) <= 256:
                vals = {x ** y for x in va for y in vb}
                ok = all(lo <= v <= hi for v in vals)
                an.obligation(frame, 'overflow', 'pow', t.sp, ok, None if ok else 'pow may overflow: %s' % sorted(vals)[-3:])
                return an._from_set(st, ty, {v for v in vals if lo <= v <= hi} or {0})
            al, au, bl, bu = st.lb(a), st.ub(a), st.lb(b), st.ub(b)
            if None not in (al, au, bl, bu) and al >= 0 and bl >= 0 and (bu > 256 or au > 2**64):
                an.obligation(frame, 'overflow', 'pow', t.sp, False, 'exponent/base unbounded')
                return None
            if None not in (al, au, bl, bu) and al >= 0 and bl >= 0:
                mx = au ** bu
                ok = mx <= hi
                an.obligation(frame, 'overflow', 'pow', t.sp, ok, None if ok else 'pow upper bound %d' % mx)
                return ('int', an.fresh(st, ty, al ** bl if al > 0 else 0, min(mx, hi), 'pow'))
        an.obligation(frame, 'overflow', 'pow', t.sp, False, 'operands unknown')
        return None

    @suffix('>::to_le_bytes', '>::to_be_bytes', '>::to_ne_bytes')
    def m_to_bytes(an, t, args, frame, st, c):
        ty = int_ty_of(c['fn'])
        if not ty:
            return NotImplemented
        n = {'u8': 1, 'u16': 2, 'u32': 4, 'u64': 8, 'u128': 16, 'usize': 8, 'i8': 1, 'i16': 2, 'i32': 4, 'i64': 8, 'i128': 16, 'isize': 8}[ty]
        x = args[0]
        if x[0] == 'int' and not c['fn'].endswith('to_ne_bytes') and n <= 8:
            # byte i = (x >> 8i) & 0xff: defined through the ordinary bit operators so that ranges and bit provenance follow
            els = {}
            for i in range(n):
                sh = an.binop('Shr', x, V_const(8 * i), ty, frame, st) if i else x
                b_ = an.binop('BitAnd', sh, V_const(0xff), ty, frame, st) if n > 1 else sh
                els[i if c['fn'].endswith('to_le_bytes') else n - 1 - i] = b_
            return ('array', n, els, None, None, 'u8')
        return ('array', n, {}, None, None, 'u8')

    @suffix('>::from_le_bytes', '>::from_be_bytes')
    def m_from_xe_bytes(an, t, args, frame, st, c):
        ty = int_ty_of(c['fn'])
        v = args[0]
        if not ty or v[0] != 'array' or v[1] is None or INT_RANGES[ty][0] != 0:
            return None
        n = v[1]
        tot = Lin.const(0)
        for i in range(n):
            e = v[2].get(i, v[3])
            if e is None and len(v) > 4 and v[4] is not None:
                e = an.materialize('u8', '%s[%d]' % (v[4], i), st, frame)
            lin = an.as_int(e, st) if e is not None else None
            if lin is None:
                return None
            sh = 8 * (i if c['fn'].endswith('from_le_bytes') else n - 1 - i)
            tot = tot + lin.scale(1 << sh)
        return ('int', tot)

    @suffix('>::from_ne_bytes', '>::from_str_radix', '>::abs', '>::unsigned_abs', '>::rotate_left', '>::rotate_right',
            '>::swap_bytes', '>::reverse_bits')
    def m_from_bytes(an, t, args, frame, st, c):
        return None

    @suffix('>::abs_diff')
    def m_abs_diff(an, t, args, frame, st, c):
        return None

    @suffix('>::div_ceil')
    def m_div_ceil(an, t, args, frame, st, c):
        ty = an.subst_ty(t.dest.ty, frame)
        if ty not in INT_RANGES:
            return NotImplemented
        a, b = an.as_int(args[0], st), an.as_int(args[1], st)
        ok = b is not None and st.prove_cmp('Ne', b, Lin.const(0))
        an.obligation(frame, 'divzero', 'div_ceil', t.sp, ok, None)
        if a is not None and b is not None:
            al, au, bl, bu = st.lb(a), st.ub(a), st.lb(b), st.ub(b)
            if None not in (al, au, bl, bu) and al >= 0 and bl > 0:
                lo_, hi_ = -(-al // bu), -(-au // bl)
                if lo_ == hi_:
                    return V_const(lo_)
                q = an.fresh(st, ty, lo_, hi_, 'divceil')
                if b.is_const() and b.k > 1 and len(st.cons) < 100:
                    # q = ceil(a / c):  a <= c*q <= a + c - 1
                    st.cons.add(a - q.scale(b.k))
                    st.cons.add(q.scale(b.k) - a - Lin.const(b.k - 1))
                return ('int', q)
        return None

    @model('core::convert::From::from', 'core::convert::Into::into')
    def m_from(an, t, args, frame, st, c):
        dty = an.subst_ty(t.dest.ty, frame)
        sty = an.subst_ty(t.args[0].ty or '', frame)
        if dty in INT_RANGES and (sty in INT_RANGES or sty == 'bool'):
            lin = an.as_int(args[0], st)
            if lin is not None:
                return ('int', lin)
            return None
        if dty == sty:
            return args[0]
        return NotImplemented

    @model('core::cmp::PartialEq::eq', 'core::cmp::PartialEq::ne', 'core::cmp::PartialOrd::lt', 'core::cmp::PartialOrd::le', 'core::cmp::PartialOrd::gt',
           'core::cmp::PartialOrd::ge')
    def m_cmp(an, t, args, frame, st, c):
        if ws_resolved(an, c):
            return NotImplemented
        a = deref_val(an, args[0], frame, st)
        b = deref_val(an, args[1], frame, st)
        op = {'eq': 'Eq', 'ne': 'Ne', 'lt': 'Lt', 'le': 'Le', 'gt': 'Gt', 'ge': 'Ge'}[c['fn'].split('::')[-1]]
        if a[0] in ('int', 'bool') and b[0] in ('int', 'bool'):
            return an.binop(op, a, b, 'u64', frame, st)
        if op in ('Eq', 'Ne') and a[0] == 'adt' and b[0] == 'adt' and a[1] == b[1] and a[2] is not None and b[2] is not None:
            # field-less enums (`x != E::V` goes through the provided PartialEq::ne = !eq of core, which is not a workspace body):
            # decided when the two variant sets are disjoint, or both are the same single variant
            ad = an.prog.adts.get(a[1])
            if ad is not None and ad.get('kind') == 'Enum' and all(not v.get('fields') for v in ad['variants']):
                if not (a[2] & b[2]):
                    return ('bool', ('const', op == 'Ne'))
                if len(a[2]) == 1 and a[2] == b[2]:
                    return ('bool', ('const', op == 'Eq'))
        return ('bool', B_UNK)

    @model('core::clone::Clone::clone')
    def m_clone(an, t, args, frame, st, c):
        if ws_resolved(an, c):
            # derived / hand-written Clone in the workspace: the value is copied structurally
            return deref_val(an, args[0], frame, st)
        return deref_val(an, args[0], frame, st)

    @model('core::default::Default::default')
    def m_default(an, t, args, frame, st, c):
        ty = an.subst_ty(t.dest.ty, frame)
        if ty in INT_RANGES:
            return V_const(0)
        if ty == 'bool':
            return ('bool', ('const', False))
        pt = parse_ty(ty)
        if pt[0] == 'array' and _elem_ty(pt) in INT_RANGES:
            return ('array', an.const_usize(pt[2], frame), {}, V_const(0), None, _elem_ty(pt))
        if ty.startswith('heapless::vec::VecInner') or ty.startswith('heapless::Vec'):
            return make_hvec(an, ty, st, Lin.const(0))
        return NotImplemented

    @model('core::intrinsics::discriminant_value')
    def m_discriminant_value(an, t, args, frame, st, c):
        v = deref_val(an, args[0], frame, st)
        if v[0] == 'adt' and v[2] is not None:
            a = an.prog.adts.get(v[1])
            if a is not None:
                vals = {a['variants'][i]['discr'] for i in v[2] if i < len(a['variants'])}
                ty = an.subst_ty(t.dest.ty, frame)
                return an._from_set(st, ty if ty in INT_RANGES else 'isize', vals)
        return None

    @model('core::mem::size_of')
    def m_size_of(an, t, args, frame, st, c):
        ga = c.get('ga', [])
        sz = {'u8': 1, 'u16': 2, 'u32': 4, 'u64': 8, 'u128': 16, 'i8': 1, 'i16': 2, 'i32': 4, 'i64': 8}.get(an.subst_ty(ga[0], frame) if ga else '')
        return V_const(sz) if sz else None

    @model('core::mem::replace', 'core::mem::take', 'core::mem::swap')
    def m_mem_replace(an, t, args, frame, st, c):
        nm = c['fn'].split('::')[-1]
        if args[0][0] == 'ref':
            old = an.read_ptr(args[0][1], frame, st)
            if nm == 'replace':
                an.write_ptr(args[0][1], args[1], frame, st)
                return old
            if nm == 'take':
                an.havoc_target(args[0], frame, st)
                return old
        for a in args:
            an.havoc_target(a, frame, st)
        return None

    # ------------------------------------------------------------------ iterators
    def iter_item(an, it, frame, st, t):
        """abstract item produced by one `next` on iterator value `it` (or None if unknown)"""
        k = it[1]
        if k == 'slice':
            sr = it[2]
            i = an.fresh(st, 'usize', 0, None, 'it')
            st.cons.add(i - sr[3] + Lin.const(1))
            u = st.ub(sr[3])
            if u is not None:
                st.set_bounds(list(i.co)[0], 0, u - 1)
            return ('ref', ('E', sr, i))
        if k == 'chunks_exact':
            sr, n = it[2], it[3]
            off = an.fresh(st, 'usize', 0, None, 'chunk')
            # off + n <= len
            st.cons.add(off + n - sr[3])
            return ('sref', sr[1], sr[2] + off, n)
        if k == 'zip':
            a = iter_item(an, it[2], frame, st, t)
            b = iter_item(an, it[3], frame, st, t)
            return ('tuple', (a if a is not None else TOP, b if b is not None else TOP))
        if k == 'enumerate':
            a = iter_item(an, it[2], frame, st, t)
            i = an.fresh(st, 'usize', 0, None, 'enum')
            ln = slice_len_hint(it[2], st)
            if ln is not None:
                st.cons.add(i - ln + Lin.const(1))
                u = st.ub(ln)
                if u is not None:
                    st.set_bounds(list(i.co)[0], 0, max(u - 1, 0))
            return ('tuple', (('int', i), a if a is not None else TOP))
        if k in ('rev', 'peekable', 'take', 'skip', 'fuse', 'step_by', 'take_while', 'skip_while'):
            return iter_item(an, it[2], frame, st, t)
        if k in ('copied', 'cloned'):
            a = iter_item(an, it[2], frame, st, t)
            return deref_val(an, a, frame, st) if a is not None else None
        if k == 'map':
            a = iter_item(an, it[2], frame, st, t)
            return call_closure(an, it[3], [a if a is not None else TOP], frame, st, t)
        if k == 'filter':
            a = iter_item(an, it[2], frame, st, t)
            if a is not None:
                tmp = ('L', frame.id, 10**6 + int(an.nid().rsplit(':', 1)[1]), ())
                st.env[(frame.id, tmp[2])] = a
                call_closure(an, it[3], [('ref', tmp)], frame, st, t)
            return a
        if k == 'filter_map':
            a = iter_item(an, it[2], frame, st, t)
            r = call_closure(an, it[3], [a if a is not None else TOP], frame, st, t)
            if r is not None and r[0] == 'adt':
                return an.field_of(r, 1, '0', st, frame)
            return None
        if k == 'range':
            s, e, ty = it[2], it[3], it[4]
            v = an.fresh(st, ty if ty in INT_RANGES else 'usize', st.lb(s), None, 'rng')
            st.cons.add(v - e + Lin.const(1 if not it[5] else 0))
            u = st.ub(e)
            if u is not None:
                st.set_bounds(list(v.co)[0], None, u - (0 if it[5] else 1))
            st.cons.add(s - v)
            return ('int', v)
        if k == 'array':
            arr = it[3]
            ety = arr[5] if len(arr) > 5 else None
            if ety in INT_RANGES:
                vals = [arr[2].get(i, arr[3]) for i in range(it[2])] if it[2] <= 64 else [None]
                if all(x is not None and x[0] == 'int' for x in vals) and vals:
                    lo = [st.lb(x[1]) for x in vals]
                    hi = [st.ub(x[1]) for x in vals]
                    return ('int', an.fresh(st, ety, None if None in lo else min(lo), None if None in hi else max(hi), 'aitem'))
                return ('int', an.fresh(st, ety, None, None, 'aitem'))
            return None
        if k == 'opaque':
            return None
        return None

    def slice_len_hint(it, st):
        k = it[1]
        if k == 'slice':
            return it[2][3]
        if k == 'array':
            return it[2] if isinstance(it[2], Lin) else Lin.const(it[2])
        if k == 'take' and len(it) > 3 and it[3] is not None:
            return it[3]
        if k == 'zip':
            a, b = slice_len_hint(it[2], st), slice_len_hint(it[3], st)
            return a if a is not None else b
        if k in ('rev', 'enumerate', 'copied', 'cloned', 'map', 'peekable', 'fuse'):
            return slice_len_hint(it[2], st)
        return None

    def to_iter(an, v, frame, st):
        if v[0] == 'iter':
            return v
        if v[0] == 'ref':
            inner = an.read_ptr(v[1], frame, st)
            if inner[0] == 'iter':
                return inner
            sr = as_sref(an, v, frame, st)
            if sr is not None:
                return ('iter', 'slice', sr)
            if inner[0] == 'adt' and inner[1].startswith('core::ops::range::Range'):
                return to_iter(an, inner, frame, st)
        if v[0] == 'sref':
            return ('iter', 'slice', v)
        if v[0] == 'hvec':
            return ('iter', 'slice', as_sref(an, v, frame, st))
        if v[0] == 'array' and v[1] is not None:
            return ('iter', 'array', v[1], v)
        if v[0] == 'adt' and v[1] in ('core::ops::range::Range', 'core::ops::range::RangeInclusive'):
            s = an.as_int(an.field_of(v, 0, 'start', st, frame), st)
            e = an.as_int(an.field_of(v, 0, 'end', st, frame), st)
            if s is not None and e is not None:
                return ('iter', 'range', s, e, v[5][0] if len(v) > 5 and v[5] else 'usize', v[1].endswith('Inclusive'))
        if v[0] == 'adt' and v[1].split('::')[0] in ('lorawan', 'lorawan_device', 'lora_phy', 'lora_modulation'):
            # `impl<I: Iterator> IntoIterator for I`: a workspace iterator type is its own iterator (its `next` is analysed as code)
            return v
        return ('iter', 'opaque')

    @model('core::ops::range::RangeInclusive::new')
    def m_range_inclusive_new(an, t, args, frame, st, c):
        ga = c.get('ga', [])
        return ('adt', 'core::ops::range::RangeInclusive', frozenset([0]), {(0, 'start'): args[0], (0, 'end'): args[1]}, None, tuple(ga))

    @model('core::ops::range::RangeInclusive::contains', 'core::ops::range::Range::contains')
    def m_range_contains(an, t, args, frame, st, c):
        r = deref_val(an, args[0], frame, st)
        x = deref_val(an, args[1], frame, st)
        if r[0] != 'adt' or x[0] != 'int':
            return ('bool', B_UNK)
        lo = an.as_int(an.field_of(r, 0, 'start', st, frame), st)
        hi = an.as_int(an.field_of(r, 0, 'end', st, frame), st)
        xl = x[1]
        if lo is None or hi is None:
            return ('bool', B_UNK)
        incl = c['fn'].startswith('core::ops::range::RangeInclusive')
        up_op, up_neg = ('Le', 'Gt') if incl else ('Lt', 'Ge')
        t1, f1 = st.prove_cmp('Le', lo, xl), st.prove_cmp('Gt', lo, xl)
        t2, f2 = st.prove_cmp(up_op, xl, hi), st.prove_cmp(up_neg, xl, hi)
        if t1 and t2:
            return ('bool', ('const', True))
        if f1 or f2:
            return ('bool', ('const', False))
        if t1:
            return ('bool', ('cmp', up_op, xl, hi))
        if t2:
            return ('bool', ('cmp', 'Le', lo, xl))
        return ('bool', B_UNK)

    @model('core::iter::traits::collect::IntoIterator::into_iter', 'core::slice::<impl [T]>::iter', 'core::slice::<impl [T]>::iter_mut')
    def m_into_iter(an, t, args, frame, st, c):
        v = args[0]
        it = to_iter(an, v, frame, st)
        if it[1] == 'range':
            ga = c.get('ga', [])
            m = re.search(r'Range(?:Inclusive)?<(\w+)>', ga[0]) if ga else None
            if m:
                it = it[:4] + (m.group(1),) + it[5:]
        return it

    @model('core::slice::<impl [T]>::chunks_exact', 'core::slice::<impl [T]>::chunks_exact_mut')
    def m_chunks_exact(an, t, args, frame, st, c):
        sr = as_sref(an, args[0], frame, st)
        n = an.as_int(args[1], st)
        if n is not None:
            ok = st.prove_cmp('Ne', n, Lin.const(0))
            an.obligation(frame, 'panic', 'chunks_exact(0)', t.sp, ok, None)
        if sr is None or n is None:
            return ('iter', 'opaque')
        return ('iter', 'chunks_exact', sr, n)

    @model('core::slice::<impl [T]>::chunks', 'core::slice::<impl [T]>::windows')
    def m_chunks(an, t, args, frame, st, c):
        n = an.as_int(args[1], st)
        if n is not None:
            ok = st.prove_cmp('Ne', n, Lin.const(0))
            an.obligation(frame, 'panic', 'chunks(0)', t.sp, ok, None)
        return ('iter', 'opaque')

    ADAPT1 = {'rev': 'rev', 'enumerate': 'enumerate', 'peekable': 'peekable', 'copied': 'copied', 'cloned': 'cloned', 'fuse': 'fuse'}

    @suffix('core::iter::traits::iterator::Iterator::rev', 'core::iter::traits::iterator::Iterator::enumerate', 'core::iter::traits::iterator::Iterator::peekable',
            'core::iter::traits::iterator::Iterator::copied', 'core::iter::traits::iterator::Iterator::cloned', 'core::iter::traits::iterator::Iterator::fuse')
    def m_adapt1(an, t, args, frame, st, c):
        it = to_iter(an, args[0], frame, st)
        return ('iter', c['fn'].split('::')[-1], it)

    @suffix('core::iter::traits::iterator::Iterator::zip')
    def m_zip(an, t, args, frame, st, c):
        return ('iter', 'zip', to_iter(an, args[0], frame, st), to_iter(an, args[1], frame, st))

    @suffix('core::iter::traits::iterator::Iterator::map', 'core::iter::traits::iterator::Iterator::filter', 'core::iter::traits::iterator::Iterator::filter_map',
            'core::iter::traits::iterator::Iterator::take_while', 'core::iter::traits::iterator::Iterator::skip_while')
    def m_adapt_closure(an, t, args, frame, st, c):
        return ('iter', c['fn'].split('::')[-1], to_iter(an, args[0], frame, st), args[1])

    @suffix('core::iter::traits::iterator::Iterator::take', 'core::iter::traits::iterator::Iterator::skip', 'core::iter::traits::iterator::Iterator::step_by')
    def m_adapt_n(an, t, args, frame, st, c):
        n = an.as_int(args[1], st) if len(args) > 1 else None
        return ('iter', c['fn'].split('::')[-1], to_iter(an, args[0], frame, st), n)

    @suffix('core::iter::traits::iterator::Iterator::next', 'core::iter::adapters::peekable::Peekable::peek', 'core::iter::traits::double_ended::DoubleEndedIterator::next_back',
            'core::iter::adapters::peekable::Peekable::next_if')
    def m_next(an, t, args, frame, st, c):
        if ws_resolved(an, c):
            return NotImplemented     # a workspace iterator: analyse its `next`
        it = to_iter(an, args[0], frame, st)
        an.loop_iterators.add((frame.body.path, t.sp))
        if getattr(an, 'unroll_concrete', False) and c['fn'].endswith('Iterator::next') and args[0][0] == 'ref' and it[0] == 'iter':
            # decision tables over concrete inputs: an iterator over a short, fully known sequence is stepped element by element
            # (its position is kept in the iterator value); anything not enumerable takes the abstract route below
            cur = it
            if cur[1] != 'list':
                s3 = st.copy()
                try:
                    items = concrete_items(an, cur, frame, s3, t)
                except Exception:
                    items = None
                if items is not None:
                    st.env, st.mem, st.lo, st.hi, st.sets, st.cons = s3.env, s3.mem, s3.lo, s3.hi, s3.sets, s3.cons
                    cur = ('iter', 'list', tuple(items), 0)
            if cur[1] == 'list':
                pos = cur[3]
                if pos < len(cur[2]):
                    an.write_ptr(args[0][1], ('iter', 'list', cur[2], pos + 1), frame, st)
                    return mk_some(cur[2][pos])
                an.write_ptr(args[0][1], cur, frame, st)
                return mk_none()
        item = iter_item(an, it, frame, st, t)
        if item is None:
            return None
        if c['fn'].endswith('peek'):
            tmp = ('L', frame.id, 10**6 + int(an.nid().rsplit(':', 1)[1]), ())
            st.env[(frame.id, tmp[2])] = item
            return mk_option(('ref', tmp), None)
        return mk_option(item, None)

    def concrete_items(an, it, frame, st, t):
        """the items of a short iterator chain over a slice of known length, one by one (None when not enumerable: unknown length,
        a filter whose verdict on some element is not a constant, an unmodelled adapter)"""
        k = it[1]
        if k == 'slice':
            sr = it[2]
            if sr[0] != 'sref' or not sr[3].is_const() or not (0 <= sr[3].k <= 16):
                return None
            return [('ref', ('E', sr, Lin.const(i))) for i in range(sr[3].k)]
        if k == 'list':
            return list(it[2][it[3]:])
        if k == 'array':
            n_, v_ = it[2], it[3]
            if not isinstance(n_, int) or not (0 <= n_ <= 16) or v_[0] != 'array':
                return None
            out_ = [v_[2].get(i, v_[3]) for i in range(n_)]
            return None if any(x is None for x in out_) else out_
        if k == 'zip':
            a_ = concrete_items(an, it[2], frame, st, t)
            b_ = concrete_items(an, it[3], frame, st, t)
            if a_ is None or b_ is None:
                return None
            return [('tuple', (x, y)) for x, y in zip(a_, b_)]
        if k in ('rev', 'copied', 'cloned', 'enumerate', 'map', 'filter', 'fuse'):
            inner = concrete_items(an, it[2], frame, st, t)
            if inner is None:
                return None
            if k == 'rev':
                return list(reversed(inner))
            if k == 'fuse':
                return inner
            if k in ('copied', 'cloned'):
                return [deref_val(an, a, frame, st) for a in inner]
            if k == 'enumerate':
                return [('tuple', (V_const(i), a)) for i, a in enumerate(inner)]
            out = []
            for a in inner:
                if k == 'map':
                    r = call_closure(an, it[3], [a], frame, st, t)
                    if r is None:
                        return None
                    out.append(r)
                else:
                    tmp = ('L', frame.id, 10**6 + int(an.nid().rsplit(':', 1)[1]), ())
                    st.env[(frame.id, tmp[2])] = a
                    r = call_closure(an, it[3], [('ref', tmp)], frame, st, t)
                    if __import__('os').environ.get('LRS_DEBUG_FOLD'):
                        print('FILTER', a, '->', r)
                    if r is None or r[0] != 'bool' or not (isinstance(r[1], tuple) and r[1][:1] == ('const',)):
                        return None
                    if r[1][1]:
                        out.append(a)
            return out
        return None

    @suffix('core::iter::traits::iterator::Iterator::any', 'core::iter::traits::iterator::Iterator::all', 'core::iter::traits::iterator::Iterator::position',
            'core::iter::traits::iterator::Iterator::rposition', 'core::iter::traits::iterator::Iterator::for_each', 'core::iter::traits::iterator::Iterator::find',
            'core::iter::traits::iterator::Iterator::find_map', 'core::iter::traits::iterator::Iterator::fold', 'core::iter::traits::iterator::Iterator::count',
            'core::iter::traits::iterator::Iterator::sum', 'core::iter::traits::iterator::Iterator::collect', 'core::iter::traits::iterator::Iterator::last',
            'core::iter::traits::iterator::Iterator::max', 'core::iter::traits::iterator::Iterator::min', 'core::iter::traits::iterator::Iterator::try_fold',
            'core::iter::traits::iterator::Iterator::try_for_each', 'core::iter::traits::iterator::Iterator::nth')
    def m_consume(an, t, args, frame, st, c):
        nm = c['fn'].split('::')[-1]
        it = to_iter(an, args[0], frame, st)
        an.loop_iterators.add((frame.body.path, t.sp))
        if nm == 'fold' and len(args) == 3 and args[2][0] == 'closure' and not any(True for cap in args[2][2] if cap[0] == 'ref' and False):
            # a fold over a short, fully known sequence is unrolled (exact); anything else takes the abstract route below
            s3 = st.copy()
            try:
                items = concrete_items(an, it, frame, s3, t)
                if __import__('os').environ.get('LRS_DEBUG_FOLD'):
                    print('FOLD it=', str(it)[:300], 'items=', None if items is None else len(items))
                    if it[1] == 'filter' and it[2][1] == 'slice':
                        sr_ = it[2][2]
                        print('ELEM0', str(an.read_ptr(('E', sr_, Lin.const(0)), frame, s3))[:300])
                        print('ARR', str(an.read_ptr(sr_[1], frame, s3))[:400])
                acc = args[1]
                if items is not None:
                    for a in items:
                        acc = call_closure(an, args[2], [acc, a], frame, s3, t)
                        if __import__('os').environ.get('LRS_DEBUG_FOLD'):
                            print('ACC', acc)
                        if acc is None:
                            break
                    if acc is not None:
                        st.env, st.mem, st.lo, st.hi, st.sets, st.cons = s3.env, s3.mem, s3.lo, s3.hi, s3.sets, s3.cons
                        return acc
            except Exception:
                if __import__('os').environ.get('LRS_DEBUG_FOLD'):
                    raise
        if nm == 'find' and getattr(an, 'unroll_concrete', False) and len(args) == 2 and args[1][0] == 'closure':
            # decision tables over concrete inputs: a search through a short, fully known sequence whose predicate is decided for
            # every element is followed element by element (exact); anything undecided takes the abstract route below
            s3 = st.copy()
            try:
                items = concrete_items(an, it, frame, s3, t)
                found, decided = None, items is not None
                for a in items or []:
                    tmp = ('L', frame.id, 10**6 + int(an.nid().rsplit(':', 1)[1]), ())
                    s3.env[(frame.id, tmp[2])] = a
                    r = call_closure(an, args[1], [('ref', tmp)], frame, s3, t)
                    if __import__('os').environ.get('LRS_DEBUG_FOLD'):
                        print('FIND', str(a)[:80], '->', r)
                    if r is not None and r[0] == 'bool' and r[1][0] == 'const':
                        if r[1][1]:
                            found = a
                            break
                    else:
                        decided = False
                        break
                if decided:
                    st.env, st.mem, st.lo, st.hi, st.sets, st.cons = s3.env, s3.mem, s3.lo, s3.hi, s3.sets, s3.cons
                    return mk_some(found) if found is not None else mk_none()
            except Exception:
                if __import__('os').environ.get('LRS_DEBUG_FOLD'):
                    raise
        if nm == 'position' and getattr(an, 'unroll_concrete', False) and len(args) == 2 and args[1][0] == 'closure':
            # the same search reporting the index instead of the element (the predicate takes the item itself)
            s3 = st.copy()
            try:
                items = concrete_items(an, it, frame, s3, t)
                found, decided = None, items is not None
                for i_, a in enumerate(items or []):
                    r = call_closure(an, args[1], [a], frame, s3, t)
                    if r is not None and r[0] == 'bool' and r[1][0] == 'const':
                        if r[1][1]:
                            found = i_
                            break
                    else:
                        decided = False
                        break
                if decided:
                    st.env, st.mem, st.lo, st.hi, st.sets, st.cons = s3.env, s3.mem, s3.lo, s3.hi, s3.sets, s3.cons
                    return mk_some(V_const(found)) if found is not None else mk_none()
            except Exception:
                if __import__('os').environ.get('LRS_DEBUG_FOLD'):
                    raise
        # run the element pipeline once on an abstract item (twice, to let state-carrying closures reach a fixpoint-ish)
        s2 = st.copy()
        item = iter_item(an, it, frame, s2, t)
        if nm in ('any', 'all', 'position', 'rposition', 'for_each', 'find', 'find_map', 'try_for_each'):
            f = args[1]
            a = item if item is not None else TOP
            if nm == 'find':
                tmp = ('L', frame.id, 10**6 + int(an.nid().rsplit(':', 1)[1]), ())
                s2.env[(frame.id, tmp[2])] = a
                a = ('ref', tmp)
            call_closure(an, f, [a], frame, s2, t)
        elif nm in ('fold', 'try_fold'):
            call_closure(an, args[2], [TOP, item if item is not None else TOP], frame, s2, t)
        # effects of closures on captured state are over-approximated by havocking what they capture mutably
        for a in args[1:]:
            if a[0] == 'closure':
                for cap in a[2]:
                    an.havoc_target(cap, frame, st)
        if nm in ('position', 'rposition'):
            ln = slice_len_hint(it, st)
            i = an.fresh(st, 'usize', 0, None, 'pos')
            if ln is not None:
                st.cons.add(i - ln + Lin.const(1))
                u = st.ub(ln)
                if u is not None:
                    st.set_bounds(list(i.co)[0], 0, u - 1)
            return mk_option(('int', i), None)
        if nm == 'count':
            ln = slice_len_hint(it, st)
            i = an.fresh(st, 'usize', 0, None, 'count')
            if ln is not None:
                st.cons.add(i - ln)
            return ('int', i)
        if nm in ('any', 'all'):
            return ('bool', B_UNK)
        return None

    # ------------------------------------------------------------------ closures
    def call_closure(an, f, cargs, frame, st, t):
        if f is None or f[0] not in ('closure', 'fn'):
            return None
        if f[0] == 'fn':
            c2 = f[1]
            name = c2.get('fn', '')
            # e.g. Result::ok passed as a function
            if name.startswith('core::result::Result') and name.endswith('::ok') and cargs and cargs[0][0] == 'adt':
                v = cargs[0]
                vs = None if v[2] is None else frozenset(1 if x == 0 else 0 for x in v[2])
                return mk_option(an.field_of(v, 0, '0', st, frame), vs)
            l = an.prog.by_short.get(__import__('lrs.lir', fromlist=['x']).strip_turbofish(name))
            if l and len(l) == 1 and frame.depth < an.max_depth:
                return an.call_body(l[0], cargs, frame, st, an.make_subst(l[0], c2, frame), site=t.sp)
            return None
        from .lir import strip_turbofish
        l = an.prog.by_short.get(strip_turbofish(f[1]))
        if not l or len(l) != 1 or frame.depth >= an.max_depth + 1:
            return None
        body = l[0]
        # closure bodies take (self, args-tuple unpacked): _1 = closure env (by ref or value), then arguments
        tmp = ('L', frame.id, 10**6 + int(an.nid().rsplit(':', 1)[1]), ())
        st.env[(frame.id, tmp[2])] = f
        selfty = body.locals[1] if len(body.locals) > 1 else ''
        selfv = ('ref', tmp) if selfty.startswith('&') else f
        return an.call_body(body, [selfv] + list(cargs), frame, st, dict(frame.subst), site=t.sp)
    an.call_closure = call_closure

    @model('core::ops::function::FnOnce::call_once', 'core::ops::function::FnMut::call_mut', 'core::ops::function::Fn::call')
    def m_fn_call(an, t, args, frame, st, c):
        f = deref_val(an, args[0], frame, st)
        cargs = list(args[1][1]) if len(args) > 1 and args[1][0] == 'tuple' else []
        if f[0] in ('closure', 'fn'):
            return call_closure(an, f, cargs, frame, st, t)
        return None

    # ------------------------------------------------------------------ heapless::Vec
    def make_hvec(an, ty, st, ln=None):
        m = re.search(r';\s*([A-Za-z0-9_]+)\]', ty)
        cap = an.const_usize(m.group(1), None) if m else None
        ident = 'hv#%s' % an.nid()
        if ln is None:
            ln = an.fresh(st, 'usize', 0, cap, 'hvlen')
        return ('hvec', cap, ln, ident)
    an.make_hvec = make_hvec

    def hvec_of(an, v, frame, st):
        if v[0] == 'hvec':
            return v, None
        if v[0] == 'ref':
            inner = an.read_ptr(v[1], frame, st)
            if inner[0] == 'hvec':
                return inner, v[1]
        return None, None

    @suffix('heapless::vec::VecInner::new')
    def m_hv_new(an, t, args, frame, st, c):
        return make_hvec(an, an.subst_ty(t.dest.ty, frame), st, Lin.const(0))

    @suffix('heapless::vec::VecInner::len')
    def m_hv_len(an, t, args, frame, st, c):
        hv, _ = hvec_of(an, args[0], frame, st)
        if hv is None:
            return ('int', an.fresh(st, 'usize', 0, None, 'hvlen'))
        return ('int', hv[2])

    @suffix('heapless::vec::VecInner::is_empty')
    def m_hv_is_empty(an, t, args, frame, st, c):
        hv, _ = hvec_of(an, args[0], frame, st)
        if hv is None:
            return ('bool', B_UNK)
        return an.binop('Eq', ('int', hv[2]), V_const(0), 'usize', frame, st)

    @suffix('heapless::vec::VecInner::clear')
    def m_hv_clear(an, t, args, frame, st, c):
        hv, ptr = hvec_of(an, args[0], frame, st)
        if hv is not None and ptr is not None:
            an.write_ptr(ptr, ('hvec', hv[1], Lin.const(0), hv[3]), frame, st)
        return ('tuple', ())

    @suffix('heapless::vec::VecInner::push')
    def m_hv_push(an, t, args, frame, st, c):
        hv, ptr = hvec_of(an, args[0], frame, st)
        if hv is None or ptr is None or hv[1] is None:
            an.havoc_target(args[0], frame, st)
            return mk_result(('tuple', ()), None, None)
        cap = Lin.const(hv[1])
        if st.prove_cmp('Lt', hv[2], cap):
            an.write_ptr(ptr, ('hvec', hv[1], hv[2] + Lin.const(1), hv[3]), frame, st)
            return mk_result(('tuple', ()), None, frozenset([0]))
        if st.prove_cmp('Ge', hv[2], cap):
            return mk_result(None, args[1], frozenset([1]))
        nl = an.fresh(st, 'usize', st.lb(hv[2]), hv[1], 'hvlen')
        an.write_ptr(ptr, ('hvec', hv[1], nl, hv[3]), frame, st)
        return mk_result(('tuple', ()), args[1], None)

    @suffix('heapless::vec::VecInner::extend_from_slice')
    def m_hv_extend(an, t, args, frame, st, c):
        hv, ptr = hvec_of(an, args[0], frame, st)
        sr = as_sref(an, args[1], frame, st)
        if hv is None or ptr is None or hv[1] is None or sr is None:
            an.havoc_target(args[0], frame, st)
            return mk_result(('tuple', ()), None, None)
        cap = Lin.const(hv[1])
        tot = hv[2] + sr[3]
        if st.prove_cmp('Le', tot, cap):
            an.write_ptr(ptr, ('hvec', hv[1], tot, hv[3]), frame, st)
            return mk_result(('tuple', ()), None, frozenset([0]))
        if st.prove_cmp('Gt', tot, cap):
            return mk_result(None, None, frozenset([1]))
        nl = an.fresh(st, 'usize', st.lb(hv[2]), hv[1], 'hvlen')
        an.write_ptr(ptr, ('hvec', hv[1], nl, hv[3]), frame, st)
        return mk_result(('tuple', ()), None, None)

    @suffix('heapless::vec::VecInner::from_slice')
    def m_hv_from_slice(an, t, args, frame, st, c):
        ty = an.subst_ty(t.dest.ty, frame)
        sr = as_sref(an, args[0], frame, st)
        m = re.search(r';\s*([A-Za-z0-9_]+)\]', ty)
        cap = an.const_usize(m.group(1), frame) if m else None
        if sr is None or cap is None:
            return mk_result(make_hvec(an, ty, st), None, None)
        hv = ('hvec', cap, sr[3], 'hv#fs%s' % an.nid())
        if st.prove_cmp('Le', sr[3], Lin.const(cap)):
            return mk_result(hv, None, frozenset([0]))
        if st.prove_cmp('Gt', sr[3], Lin.const(cap)):
            return mk_result(None, None, frozenset([1]))
        return mk_result(make_hvec(an, ty, st), None, None)

    @suffix('heapless::vec::VecInner::pop')
    def m_hv_pop(an, t, args, frame, st, c):
        hv, ptr = hvec_of(an, args[0], frame, st)
        if hv is not None and ptr is not None:
            nl = an.fresh(st, 'usize', 0, st.ub(hv[2]), 'hvlen')
            an.write_ptr(ptr, ('hvec', hv[1], nl, hv[3]), frame, st)
        return None

    @suffix('heapless::vec::VecInner::capacity')
    def m_hv_cap(an, t, args, frame, st, c):
        hv, _ = hvec_of(an, args[0], frame, st)
        if hv is not None and hv[1] is not None:
            return V_const(hv[1])
        return None

    # ------------------------------------------------------------------ aes / cmac key setup, hex, String
    @suffix('crypto_common::KeyInit::new_from_slice')
    def m_key_init(an, t, args, frame, st, c):
        # Aes128 / Aes128Enc / Cmac<Aes128>: Ok iff the key slice has exactly 16 bytes
        ga = ' '.join(c.get('ga', []))
        sr = as_sref(an, args[0], frame, st)
        if 'Aes128' in ga and sr is not None:
            if st.prove_cmp('Eq', sr[3], Lin.const(16)):
                return mk_result(TOP, None, frozenset([0]))
            if st.prove_cmp('Ne', sr[3], Lin.const(16)):
                return mk_result(None, None, frozenset([1]))
        return mk_result(TOP, None, None)

    @suffix('hex::encode_to_slice')
    def m_hex_encode(an, t, args, frame, st, c):
        i = as_sref(an, args[0], frame, st)
        o = as_sref(an, args[1], frame, st)
        if o is not None:
            an.havoc_slice(o, st)
        if i is not None and o is not None:
            if st.prove_cmp('Eq', i[3].scale(2), o[3]):
                return mk_result(('tuple', ()), None, frozenset([0]))
        return mk_result(('tuple', ()), None, None)

    @suffix('hex::decode_to_slice')
    def m_hex_decode(an, t, args, frame, st, c):
        o = as_sref(an, args[1], frame, st)
        if o is not None:
            an.havoc_slice(o, st)
        return mk_result(('tuple', ()), None, None)

    @suffix('alloc::string::String::with_capacity', 'alloc::string::String::new')
    def m_string_new(an, t, args, frame, st, c):
        return ('hvec', None, Lin.const(0), 'str#%s' % an.nid())

    @suffix('core::iter::sources::repeat::repeat')
    def m_repeat(an, t, args, frame, st, c):
        return ('iter', 'opaque')

    @suffix('core::iter::traits::collect::Extend::extend')
    def m_extend(an, t, args, frame, st, c):
        hv, ptr = hvec_of(an, args[0], frame, st)
        it = args[1]
        n = slice_len_hint(it, st) if it[0] == 'iter' else None
        if hv is not None and ptr is not None and hv[1] is None and n is not None and 'char' in ' '.join(c.get('ga', [])):
            # String::extend with ASCII chars is only exact for single-byte chars: the repeat()ed literal is checked by the caller's table
            an.write_ptr(ptr, ('hvec', None, hv[2] + n, hv[3]), frame, st)
            return ('tuple', ())
        an.havoc_target(args[0], frame, st)
        return ('tuple', ())

    @suffix('core::str::<impl str>::as_bytes_mut', 'core::str::<impl str>::as_bytes', 'alloc::string::String::as_bytes', 'alloc::string::String::as_mut_str',
            'alloc::string::String::as_str')
    def m_str_bytes(an, t, args, frame, st, c):
        sr = as_sref(an, args[0], frame, st)
        if sr is not None:
            return sr
        return None

    # ------------------------------------------------------------------ async: `fut.await` expansions
    @suffix('core::future::into_future::IntoFuture::into_future', 'core::pin::Pin::new_unchecked', 'core::pin::Pin::new', 'core::pin::Pin::get_unchecked_mut',
            'core::pin::Pin::get_mut', 'core::pin::Pin::as_mut', 'core::pin::Pin::into_inner')
    def m_identity(an, t, args, frame, st, c):
        if ws_resolved(an, c):
            return NotImplemented
        return args[0]

    @suffix('core::future::get_context')
    def m_get_context(an, t, args, frame, st, c):
        return TOP

    @suffix('core::future::future::Future::poll')
    def m_poll(an, t, args, frame, st, c):
        """an awaited future is modelled as a call that eventually returns: poll yields Ready(result) (the Pending
        iterations re-poll the same future and execute no other user code)"""
        f = deref_val(an, args[0], frame, st)
        res = None
        if f[0] == 'anyof':
            # the future is one of several coroutines (receiver type resolved by class hierarchy): analyse each, join
            from .absint import join_states
            from .lir import strip_turbofish
            joined = None
            for alt in f[1]:
                l = an.prog.by_short.get(strip_turbofish(alt[1])) if alt[0] == 'closure' else None
                if not l or len(l) != 1 or not l[0].coroutine or frame.chain().count(l[0].path) or frame.depth >= an.max_depth + 3:
                    joined = None
                    break
                s2 = st.copy()
                rv = an.call_body(l[0], [alt, TOP], frame, s2, dict(frame.subst), site=t.sp)
                if rv is None:
                    continue
                s2.env[(frame.id, 2 * 10**6 + 1)] = rv
                joined = s2 if joined is None else join_states(an, joined, s2, frame.id, 4 * 10**6 + (__import__('zlib').crc32((t.sp or '').encode()) % 1000), False)[0]
            if joined is not None:
                res = joined.env.pop((frame.id, 2 * 10**6 + 1), TOP)
                st.env, st.mem, st.lo, st.hi, st.sets, st.cons = joined.env, joined.mem, joined.lo, joined.hi, joined.sets, joined.cons
        if f[0] == 'closure':
            from .lir import strip_turbofish
            l = an.prog.by_short.get(strip_turbofish(f[1]))
            if l and len(l) == 1 and l[0].coroutine and frame.depth < an.max_depth + 3 and frame.chain().count(l[0].path) == 0:
                res = an.call_body(l[0], [f, TOP], frame, st, dict(frame.subst), site=t.sp)
                if res is None:
                    from .absint_interp import DIVERGE
                    return DIVERGE
        if res is None or res == TOP:
            # unknown future: its output type is the payload type of Poll<T> in the destination
            ty = an.subst_ty(t.dest.ty, frame)
            head, targs = adt_head_and_args(ty)
            res = an._mat_anon(targs[0], frame, st) if targs else TOP
        return ('adt', 'core::task::poll::Poll', frozenset([0]), {(0, '0'): res}, None, ())

    # ------------------------------------------------------------------ formatting & misc (no panics of their own)
    @suffix('core::fmt::Formatter::write_str', 'core::fmt::Formatter::write_fmt', 'core::fmt::Write::write_str', 'core::fmt::Write::write_fmt',
            'core::fmt::rt::Argument::new_display', 'core::fmt::rt::Argument::new_debug', 'core::fmt::rt::Argument::new_lower_hex',
            'core::fmt::rt::Argument::new_upper_hex', 'core::fmt::Arguments::new', 'core::fmt::Arguments::new_const', 'core::fmt::Arguments::new_v1',
            'core::fmt::Formatter::debug_struct', 'core::fmt::Formatter::debug_tuple', 'core::fmt::Formatter::pad', 'core::fmt::Formatter::debug_list',
            'core::hint::black_box', 'core::fmt::Arguments::from_str')
    def m_fmt(an, t, args, frame, st, c):
        return None

    @suffix('core::hint::unreachable_unchecked', 'core::intrinsics::unreachable')
    def m_unreachable(an, t, args, frame, st, c):
        from .absint_interp import DIVERGE
        return DIVERGE

    an.loop_iterators = set()


def typenum_value(ty):
    """decode typenum::uint::UInt<UInt<..UTerm, Bk>.., Bk> (binary, most significant first) to an integer"""
    i = ty.find('typenum::uint::')
    if i < 0:
        return None
    s_ = ty[i:]
    bits = re.findall(r'typenum::bit::B([01])', s_)
    if 'typenum::uint::UTerm' not in s_ or not bits:
        return None
    v = 0
    for b in bits:
        v = v * 2 + int(b)
    return v


def join_vals(an, st, a, b, ty):
    if a == b:
        return a
    if a is None or b is None:
        return None
    if a[0] == 'int' and b[0] == 'int' and ty in INT_RANGES:
        lo = [st.lb(a[1]), st.lb(b[1])]
        hi = [st.ub(a[1]), st.ub(b[1])]
        return ('int', an.fresh(st, ty, None if None in lo else min(lo), None if None in hi else max(hi), 'join'))
    return None
