"""Check driver: facts extraction + caching keyed by the content of /repo's working tree, known-findings
handling, evidence and replay files, exit codes (see DESIGN 2.2, 7)."""
import fcntl
import hashlib
import importlib
import json
import os
import shutil
import subprocess
import sys
import time

VERIF = os.path.dirname(os.path.dirname(os.path.abspath(__file__)))
REPO = os.environ.get('LRS_REPO', '/repo')
CACHE = os.path.join(VERIF, '.cache')
EXTRACT_BIN = os.path.join(VERIF, 'extract', 'target', 'release', 'lrs-extract')

CONFIGS = {
    # name: cargo check arguments
    'ws': ['--workspace', '--features', 'lora-phy/lorawan-radio'],
    'dev-serde': ['-p', 'lorawan-device', '--features', 'serde'],
    'dev-full': ['-p', 'lorawan-device', '--features', 'serde,certification,multicast'],
    'enc-min': ['-p', 'lorawan', '--no-default-features'],
    'mod-serde': ['-p', 'lora-modulation', '--features', 'serde'],
}

# minimum number of bodies per crate per configuration (counted on the pinned tree; a drop means the
# extractor was skipped or a crate was not analysed -> fail closed)
BODY_FLOORS = {
    'ws': {'lorawan': 1500, 'lorawan_device': 420, 'lora_phy': 800, 'lora_modulation': 20},
    'dev-serde': {'lorawan_device': 420},
    'dev-full': {'lorawan_device': 450},
    'enc-min': {'lorawan': 1000},
    'mod-serde': {'lora_modulation': 20},
}


def tree_hash():
    h = hashlib.sha256()
    files = []
    for root, dirs, fs in os.walk(REPO):
        dirs[:] = [d for d in dirs if d not in ('target', '.git', 'examples', '.github')]
        for f in fs:
            if f.endswith('.rs') or f in ('Cargo.toml', 'Cargo.lock', 'rust-toolchain.toml'):
                files.append(os.path.join(root, f))
    files.sort()
    for f in files:
        h.update(f.encode())
        h.update(b'\0')
        with open(f, 'rb') as fh:
            h.update(fh.read())
        h.update(b'\0')
    try:
        st = os.stat(EXTRACT_BIN)
        h.update(('%d:%d' % (st.st_size, int(st.st_mtime))).encode())
    except OSError:
        pass
    return h.hexdigest()[:24], len(files)


class CheckError(Exception):
    pass


def ensure_extractor():
    if os.path.exists(EXTRACT_BIN):
        return
    subprocess.run(['cargo', '+nightly', 'build', '--offline', '--release'],
                   cwd=os.path.join(VERIF, 'extract'), check=True,
                   env=dict(os.environ, CARGO_NET_OFFLINE='true'))


def facts_dir(config):
    """extract (or reuse) facts for `config` of the current /repo tree; returns (dir, info)"""
    os.makedirs(CACHE, exist_ok=True)
    ensure_extractor()
    th, nfiles = tree_hash()
    d = os.path.join(CACHE, 'facts', th, config)
    marker = os.path.join(d, '.complete')
    lock = open(os.path.join(CACHE, 'extract.lock'), 'w')
    fcntl.flock(lock, fcntl.LOCK_EX)
    try:
        if not os.path.exists(marker):
            if os.path.exists(d):
                shutil.rmtree(d)
            os.makedirs(d)
            t0 = time.time()
            p = subprocess.run([os.path.join(VERIF, 'extract', 'run.sh'), d] + CONFIGS[config],
                               stdout=subprocess.PIPE, stderr=subprocess.STDOUT, text=True)
            if p.returncode != 0:
                shutil.rmtree(d, ignore_errors=True)
                raise CheckError('extraction failed for config %s (does /repo compile?):\n%s' % (config, p.stdout[-4000:]))
            with open(marker, 'w') as f:
                f.write('%.1f' % (time.time() - t0))
            # prune old caches (keep the 6 most recent trees)
            base = os.path.join(CACHE, 'facts')
            olds = sorted((os.path.getmtime(os.path.join(base, x)), x) for x in os.listdir(base))
            for _, x in olds[:-6]:
                shutil.rmtree(os.path.join(base, x), ignore_errors=True)
    finally:
        fcntl.flock(lock, fcntl.LOCK_UN)
        lock.close()
    return d, {'tree_hash': th, 'source_files_hashed': nfiles, 'config': config, 'cargo_args': CONFIGS[config]}


def load_program(config):
    from . import lir
    d, info = facts_dir(config)
    prog = lir.Program()
    n = prog.load_dir(d)
    if n == 0:
        raise CheckError('no facts files in %s' % d)
    counts = {}
    for b in prog.bodies.values():
        counts[b.crate] = counts.get(b.crate, 0) + 1
    for crate, floor in BODY_FLOORS.get(config, {}).items():
        if counts.get(crate, 0) < floor:
            raise CheckError('config %s: crate %s has %d bodies, floor %d (extractor skipped or crate not analysed)'
                             % (config, crate, counts.get(crate, 0), floor))
    info['bodies_per_crate'] = counts
    return prog, info


class Result:
    """what a property module returns"""

    def __init__(self, pid):
        self.pid = pid
        self.violations = []   # dicts: key, what, site, rule, detail
        self.instances = []    # rule instances checked: dicts
        self.coverage = {}
        self.assumptions = []
        self.samples = []
        self.level = 'other'
        self.explanation = ''

    def violation(self, key, what, site=None, rule=None, detail=None):
        self.violations.append({'key': key, 'what': what, 'site': str(site) if site is not None else None,
                                'rule': rule, 'detail': detail})

    def ok(self, rule, instance, detail=None):
        self.instances.append({'rule': rule, 'instance': instance, 'verdict': 'holds', 'detail': detail})

    def require(self, cond, key, what, site=None, rule=None, detail=None, instance=None):
        if cond:
            self.ok(rule, instance or key, detail)
        else:
            self.violation(key, what, site, rule, detail)
        return cond


# checks whose rules are also run over the all-features build of lorawan-device in the thorough tier
ALL_FEATURES_PIDS = ('C05', 'C06', 'C08', 'C09', 'C10', 'C11', 'C12', 'C20')   # C07 covers that build by itself


def load_known():
    p = os.path.join(VERIF, 'known_findings.json')
    if not os.path.exists(p):
        return {'findings': [], 'fixed': []}
    with open(p) as f:
        return json.load(f)


def main(argv):
    import argparse
    ap = argparse.ArgumentParser()
    ap.add_argument('pid')
    ap.add_argument('--tier', default=os.environ.get('VERIF_TIER', 'quick'))
    ap.add_argument('--replay', default=None)
    ap.add_argument('--verbose', '-v', action='store_true')
    args = ap.parse_args(argv)
    pid = args.pid.upper()
    tier = args.tier if args.tier in ('quick', 'thorough') else 'quick'
    seed = int(os.environ.get('VERIF_SEED', '0') or 0)
    t0 = time.time()
    # LRS_EVIDENCE_DIR: scratch runs of the tooling (seed regression on a copy of the repository) keep their evidence apart
    evdir = os.environ.get('LRS_EVIDENCE_DIR') or os.path.join(VERIF, 'evidence')
    os.makedirs(os.path.join(evdir, 'replay'), exist_ok=True)
    evfile = os.path.join(evdir, pid + '.json')
    if not args.replay:
        # replay files describe the violations of *this* run only
        import glob as _glob
        for f_ in _glob.glob(os.path.join(evdir, 'replay', '%s-*.json' % pid)):
            os.remove(f_)
    if args.replay:
        with open(args.replay) as f:
            rp = json.load(f)
        print(json.dumps(rp, indent=1))
        print('(static analysis: to re-derive, run ./check %s on the tree; this file lists the rule instance, '
              'the site and the derivation the checker printed)' % pid)
        return 0
    try:
        mod = importlib.import_module('lrs.props.' + pid.lower())
        res = mod.run(tier)
        if tier == 'thorough' and pid in ALL_FEATURES_PIDS and not os.environ.get('LRS_CONFIG_OVERRIDE'):
            # thorough tier of the device-stack checks: the same rules again over the all-features build of lorawan-device
            # (serde, certification, multicast: code the default build does not contain)
            os.environ['LRS_CONFIG_OVERRIDE'] = 'dev-full'
            try:
                res2 = mod.run(tier)
            finally:
                del os.environ['LRS_CONFIG_OVERRIDE']
            have = {v['key'] for v in res.violations}
            for v in res2.violations:
                if v['key'] not in have:
                    res.violations.append(dict(v, what=v['what'] + ' [all-features build]'))
            n1 = len(res.instances)
            res.instances += [dict(i, instance='%s [all-features build]' % i.get('instance')) for i in res2.instances]
            res.coverage['all_features_build'] = {'config': 'dev-full', 'cargo_args': CONFIGS['dev-full'], 'rule_instances': len(res2.instances), 'default_build_rule_instances': n1}
    except CheckError as e:
        # fail closed: a check that cannot analyse the tree must not pass
        rp = os.path.join(evdir, 'replay', '%s-0.json' % pid)
        with open(rp, 'w') as f:
            json.dump({'property': pid, 'rule': 'analysis-precondition', 'what': str(e)}, f, indent=1)
        print('ERROR: %s' % e)
        print('VIOLATION property=%s replay=%s' % (pid, rp))
        write_evidence(evfile, pid, tier, seed, 'other', {'explanation': 'analysis failed closed: %s' % e,
                                                          'evaluations': 1, 'distinct_nontrivial': 0}, [], time.time() - t0, 1)
        return 1
    except Exception as e:      # an internal failure of the analysis is not a pass either
        import traceback
        tb = traceback.format_exc()
        rp = os.path.join(evdir, 'replay', '%s-0.json' % pid)
        with open(rp, 'w') as f:
            json.dump({'property': pid, 'rule': 'analysis-internal-error', 'what': '%s: %s' % (type(e).__name__, e), 'traceback': tb.splitlines()[-12:]}, f, indent=1)
        sys.stderr.write(tb)
        print('ERROR: internal error of the analysis (%s: %s) - the tree could not be judged' % (type(e).__name__, e))
        print('VIOLATION property=%s replay=%s' % (pid, rp))
        write_evidence(evfile, pid, tier, seed, 'other', {'explanation': 'analysis failed closed (internal error): %s' % e,
                                                          'evaluations': 1, 'distinct_nontrivial': 0}, [], time.time() - t0, 1)
        return 1
    known = load_known()
    kmap = {}
    for k in known.get('findings', []):
        if k['property'] == pid:
            kmap[k['key']] = k
    new = []
    seen_known = []
    for v in res.violations:
        if v['key'] in kmap:
            seen_known.append(v)
        else:
            new.append(v)
    for v in seen_known:
        print('KNOWN-FINDING: property=%s %s [%s]' % (pid, kmap[v['key']]['what_fails'], v['key']))
    rc = 0
    for i, v in enumerate(new):
        rp = os.path.join(evdir, 'replay', '%s-%d.json' % (pid, i))
        with open(rp, 'w') as f:
            json.dump(dict(v, property=pid), f, indent=1)
        print('  %s: %s  at %s' % (v['key'], v['what'], v['site']))
        print('VIOLATION property=%s replay=%s' % (pid, rp))
        rc = 1
    # stale known findings are informational (a fixed defect should move to "fixed")
    stale = [k for k in kmap if k not in {v['key'] for v in seen_known} and kmap[k].get('tier', tier) == tier]
    for k in stale:
        print('note: known finding %s no longer reported (repaired?)' % k)
    cov = dict(res.coverage)
    cov.setdefault('explanation', res.explanation or mod.__doc__ or '')
    cov['rule_instances'] = len(res.instances)
    cov['instances'] = res.instances if len(res.instances) <= 400 else res.instances[:400]
    cov['samples'] = res.samples or res.instances[:5]
    cov['known_findings_reported'] = [v['key'] for v in seen_known]
    cov['new_violations'] = [v['key'] for v in new]
    cov.setdefault('evaluations', max(1, len(res.instances) + len(res.violations)))
    cov.setdefault('distinct_nontrivial', len({json.dumps(i.get('instance'), sort_keys=True, default=str) for i in res.instances}))
    write_evidence(evfile, pid, tier, seed, res.level, cov, res.assumptions, time.time() - t0, len(new))
    if args.verbose:
        for i in res.instances:
            print('  ok  %s: %s' % (i['rule'], i['instance']))
    print('%s: %d rule instances hold, %d known findings, %d new violations (%.1fs)' %
          (pid, len(res.instances), len(seen_known), len(new), time.time() - t0))
    return rc


def write_evidence(path, pid, tier, seed, level, coverage, assumptions, wall, nviol):
    ev = {'property_id': pid, 'tier': tier, 'seed': seed, 'level': level, 'coverage': coverage,
          'assumptions': assumptions, 'wall_s': round(wall, 2), 'violations': nviol}
    tmp = '%s.%d.tmp' % (path, os.getpid())
    with open(tmp, 'w') as f:
        json.dump(ev, f, indent=1, default=str)
    os.replace(tmp, path)
