"""SPI transaction extraction: run a driver operation (async fn or plain fn) through the abstract interpreter with hooks
on the SpiInterface primitives and record, for every transaction it can issue, the abstract bytes handed to the bus:
each byte as 8 bit-provenance entries (constant, bit k of an input, unknown)."""
import json
import re
from . import absint_interp, bits
from .absint import Lin

HOOKS = ('SpiInterface::write', 'SpiInterface::write_with_payload', 'SpiInterface::read', 'SpiInterface::read_with_status')


def norm_sym(name):
    """stable name of an input: parameters keep their name, values read back from the chip become R, fields of variant
    supplied objects keep the field name"""
    if re.match(r'^p\d+_', name):
        return re.sub(r'^p\d+_', '', name).replace('*', '')
    m = re.search(r'\*\.([A-Za-z_0-9.]+)$', name)
    if m:
        return 'cfg.' + m.group(1)
    if name.startswith(('u#', 'a#', 'r#', 't#')) or '[' in name:
        return 'R'
    return 'X'


def fmt_byte(bl):
    if bl is None:
        return 'any'
    if isinstance(bl, str):
        return bl
    if all(e in (0, 1) for e in bl):
        return '0x%02X' % sum(e << k for k, e in enumerate(bl))
    out = []
    for e in reversed(bl):
        if e in (0, 1):
            out.append(str(e))
        elif isinstance(e, tuple) and e[0] == 'i':
            out.append('%s.%d' % (norm_sym(e[1]), e[2]))
        elif isinstance(e, tuple) and e[0] == 'n' and isinstance(e[1], tuple) and e[1][0] == 'i':
            out.append('~%s.%d' % (norm_sym(e[1][1]), e[1][2]))
        else:
            out.append('?')
    if all(x == '?' for x in out):
        return 'any'
    return '[' + ' '.join(out) + ']'


def slice_bits(an, st, v, frame, assign=None, joins=None):
    """list of per-byte bit lists (LSB first), None for an unknown byte, or a string for a slice of unknown length"""
    if v[0] != 'sref':
        return ['<not a slice>']
    n = v[3]
    if not n.is_const():
        return ['<%s bytes>' % norm_sym(str(n).split('.len')[0]) if n.single() else '<n bytes>']
    bv = bits.BitView(an, st, assign)
    out = []
    for i in range(n.k):
        e = an.read_elem(v, Lin.const(i), frame, st)
        lin = an.as_int(e, st) if e is not None else None
        out.append(None if lin is None else bv.lin_bits(lin, 'u8'))
    if joins is not None:
        joins |= bv.joins
    return out


def transactions(prog, body, setup=None, max_depth=6, subst=None, shifts=None, unroll=False):
    """[(kind, [byte bit lists], [payload byte bit lists] | None)] — one entry per distinct transaction shape"""
    an = absint_interp.new_analyzer(prog, max_depth=max_depth)
    rec = {}
    an.unroll_concrete = unroll
    if shifts is not None:
        an.lossy_shifts = shifts

    def hook(an_, t, args, frame, st, nm):
        kind = nm.split('::')[-1]
        joins = set()
        slice_bits(an_, st, args[1], frame, None, joins)
        if kind == 'write_with_payload' and len(args) > 2:
            slice_bits(an_, st, args[2], frame, None, joins)
        # a byte built from a merged value with few members (if c { A } else { B }): one transaction per member
        cases = [{}]
        for s_ in sorted(joins)[:2]:
            cases = [dict(a, **{s_: x}) for a in cases for x in sorted(st.sets[s_])]
        for assign in cases:
            hd = slice_bits(an_, st, args[1], frame, assign)
            pl = slice_bits(an_, st, args[2], frame, assign) if (kind == 'write_with_payload' and len(args) > 2) else None
            tx = [kind, [fmt_byte(b) for b in hd]] + ([[fmt_byte(b) for b in pl]] if pl is not None else [])
            rec.setdefault(json.dumps(tx), (kind, hd, pl))
    for k in HOOKS:
        an.call_hooks[k] = hook
    if (prog.fns.get(body.raw_path) or {}).get('async'):
        absint_interp.analyze_async_entry(an, body, setup=setup, subst=subst)
    else:
        an.analyze_entry(body, setup=setup, subst=subst)
    return [(k, rec[k]) for k in sorted(rec)]
