#!/usr/bin/env python3
"""debug: run the abstract interpreter on matching bodies as entry points and print obligations"""
import sys, time, signal
sys.path.insert(0, '/verif')
from lrs.props.common import ctx
from lrs import absint_interp
c = ctx(sys.argv[2] if len(sys.argv) > 2 else 'ws')
an = absint_interp.new_analyzer(c.prog)
t0 = time.time()
class TO(Exception): pass
def h(*a): raise TO()
signal.signal(signal.SIGALRM, h)
for b in c.prog.find(sys.argv[1]):
    if b.stage == 'promoted':
        continue
    t1 = time.time()
    signal.alarm(20)
    try:
        an.analyze_entry(b)
    except TO:
        print('TIMEOUT', b.path)
    except Exception as e:
        import traceback
        print('EXC', b.path, repr(e))
        traceback.print_exc(limit=8)
    signal.alarm(0)
    dt = time.time() - t1
    if dt > 1:
        print('slow %.1fs %s' % (dt, b.path))
for o in an.finalize_obligations():
    flag = 'OK ' if o.bad == 0 else 'BAD'
    print(flag, o.key(), o.span.split('/')[-1], '' if o.bad == 0 else o.detail)
print('havoc:', sorted(an.havoc_log.items(), key=lambda x: -x[1])[:25])
print('%.1fs' % (time.time() - t0))
