#!/usr/bin/env python3
import sys, time
sys.path.insert(0, '/verif')
from lrs.props.common import ctx
from lrs import absint_run
c = ctx('ws')
ents = absint_run.exported_entries(c.prog, 'lorawan')
print(len(ents), 'entries')
an, inv, skipped = absint_run.run_passes(c.prog, ents, {'lorawan'}, log=print)
obl = an.finalize_obligations()
bad = [o for o in obl if o.bad]
print(len(obl), 'obligations', len(bad), 'undischarged')
for o in sorted(bad, key=lambda o: o.key()):
    print('BAD', o.key(), o.span.split('/')[-1], o.detail['why'] if o.detail else '', '<-', (o.detail or {}).get('context', [])[1:3])
print('skipped', skipped)
print('havoc:', sorted(an.havoc_log.items(), key=lambda x: -x[1])[:30])
for h, r in sorted(inv.len_inv.items()):
    print(h.split('::')[-1], {f: v[:3] for f, v in r.items()})
